"""
C17 - a job runs exactly what was asked and reports exactly what happened.

  R1  the Job descriptor shared by all driver instances keeps no per-driver state:
      Job.__get__ does not store into self (or returns a fresh object it stored into)
  R2  runner shape: scratch directory is a `with TemporaryDirectory(dir=scratch)`,
      commands run in list order, the loop is left at the first non-zero return code,
      both run(...) sites use the same cwd and a copy of os.environ, named commands'
      output files are read back under the same name, return files are read as bytes,
      the recorded input hash is the loaded job's hash
  R3  exit status 0 only when every command succeeded and every requested file exists
  R4  what is recorded (JobOutput.exitcode) depends on everything the exit status depends on
Not decided: subprocess behaviour, captured text.
"""
from __future__ import annotations

import ast

from ..cfg import CFG
from ..core import AnalysisError, assignments, call_name, names_in, provenance, short, walk_no_nested
from ..util import calls_named, has_call, kwarg, norm, stored_paths

JOB = "molli.pipeline.job"
RUN = "molli.pipeline.runner"

EXPLANATION = (
    "Shared-descriptor rule (no store rooted at self in Job.__get__, or a fresh copy is returned and is the "
    "only object written); shape rules for run_local read from its ast/CFG (with-managed scratch directory, "
    "iteration over job.commands in order, break dominated by a non-zero return-code test, identical cwd/env "
    "at both subprocess call sites, env derived from os.environ.copy(), file-name agreement between the "
    "capture writers and readers, read_bytes for return files, hash taken from the loaded job); the success "
    "exit is control-dependent on `fail is None` and set(retfiles) == set(job.return_files); the provenance of "
    "JobOutput(exitcode=...) must include both."
)
ASSUMPTIONS = ["subprocess.run executes the given argv in cwd with env and reports the child's return code"]
FLOORS = {"C17.R5": 4, "C17.R1": 1, "C17.R2": 7, "C17.R3": 1, "C17.R4": 1}


def run(chk):
    prog = chk.prog
    chk.call(r1_descriptor, chk)
    chk.call(r1_driver_settings, chk)
    chk.call(r1_xtb_command_values, chk)
    rl = prog.func(f"{RUN}:run_local")
    chk.analysed(rl)
    chk.call(r2_runner, chk, rl)
    chk.call(r3_exit, chk, rl)
    chk.call(r4_recorded, chk, rl, "C17.R4")
    chk.call(r5_job_codec, chk)
    chk.call(r6_bound_job_is_fresh, chk)
    chk.call(r6_no_state_shared_between_drivers, chk)
    chk.call(r7_vectorised_wrappers_forward, chk)
    chk.call(r8_runner_leaves_through_the_cleanup, chk, rl)
    chk.call(r5b_loaders_and_converters, chk)


def r1_descriptor(chk):
    prog = chk.prog
    g = prog.func(f"{JOB}:Job.__get__")
    chk.analysed(g)
    asg0 = assignments(g.node)
    aliases = {"self"} | {n for n, vals in asg0.items() if any(isinstance(v, ast.Name) and v.id == "self" for v in vals)}
    stores = [s for s in walk_no_nested(g.node) if isinstance(s, (ast.Assign, ast.AugAssign)) and any(p.split(".")[0].split("[")[0] in aliases and ("." in p or "[" in p) for p in stored_paths(s))]
    stores += [c for c in walk_no_nested(g.node) if isinstance(c, ast.Call) and isinstance(c.func, ast.Attribute) and c.func.attr in ("update", "setdefault", "__setattr__", "clear", "pop")
               and norm(c.func.value).split(".")[0] in aliases]
    stores += [c for c in walk_no_nested(g.node) if isinstance(c, ast.Call) and call_name(c) == "setattr" and c.args and norm(c.args[0]) in aliases]
    # a container taken out of the shared object (or out of a shallow copy of it: copy(self) shares every attribute value) and then filled in place
    shallow = {n for n, vals in asg0.items() if any(isinstance(v, ast.Call) and call_name(v) in ("copy", "copy.copy") and v.args and norm(v.args[0]) in aliases for v in vals)}

    def shared_value(v):
        if isinstance(v, ast.BoolOp) and isinstance(v.op, ast.Or):
            return shared_value(v.values[0])
        return isinstance(v, ast.Attribute) and isinstance(v.value, ast.Name) and v.value.id in aliases | shallow

    taken = {n for n, vals in asg0.items() if any(isinstance(v, ast.AST) and shared_value(v) for v in vals)}
    for c in walk_no_nested(g.node):
        if isinstance(c, ast.Call) and isinstance(c.func, ast.Attribute) and c.func.attr in ("update", "setdefault", "clear", "pop", "popitem", "__setitem__", "append", "extend") \
                and isinstance(c.func.value, ast.Name) and c.func.value.id in taken:
            stores.append(c)
    for s_ in walk_no_nested(g.node):
        if isinstance(s_, (ast.Assign, ast.AugAssign)) and any(p.split("[")[0] in taken and "[" in p for p in stored_paths(s_)):
            stores.append(s_)
    rets = [s for s in walk_no_nested(g.node) if isinstance(s, ast.Return)]
    chk.require(rets, "Job.__get__ has no return")
    key = f"{g.key}:no-per-driver-state-on-shared-descriptor"
    if stores:
        chk.fail("C17.R1", key, g.where(stores[0]),
                 f"`{short(stores[0], 60)}` stores driver settings on the Job object that every driver instance shares: the first driver to touch the job wins "
                 "(a second XTBDriver('/bin/false', nprocs=8) prepares commands with the first driver's executable and -P)")
        return
    # what is returned: self (only allowed without stores) or a fresh copy
    asg = assignments(g.node)
    fresh_ok = True
    for r in rets:
        v = r.value
        if isinstance(v, ast.Name) and v.id != "self":
            vals = [x for x in asg.get(v.id, []) if isinstance(x, ast.AST)]
            fresh = any(isinstance(x, ast.Call) and (call_name(x) in ("copy", "copy.copy", "copy.deepcopy", "deepcopy") or norm(x.func) in ("type(self)", "self.__class__")) for x in vals)
            fresh_ok = fresh_ok and fresh
    # the bound object must carry the driver's settings
    bound_sets = {p.split(".", 1)[1] for s in walk_no_nested(g.node) if isinstance(s, ast.Assign) for p in stored_paths(s) if "." in p and not p.startswith("self.")}
    need = {"executable", "nprocs", "envars"}
    chk.decide(fresh_ok and (need <= bound_sets or norm(rets[0].value) == "self"), "C17.R1", key, g.where(),
               f"settings are bound on a fresh object ({sorted(bound_sets)})", f"Job.__get__ returns `{norm(rets[0].value)}` which is neither self-without-stores nor a fresh copy carrying {sorted(need)}")
    # each setting consults the driver instance (obj) - not only the class
    from ..canon import Env

    genv = Env(g.node)

    def flat_or(e):
        if isinstance(e, ast.BoolOp) and isinstance(e.op, ast.Or):
            out = []
            for v in e.values:
                out.extend(flat_or(v))
            return out
        return [e]

    def bound_value(st_):
        """what is stored, with naming locals spelled out; plus everything that fills a container local on the way (`d.setdefault(..)` in
        a loop over the instance's mapping)"""
        v = genv.expand(st_.value, at=st_)
        texts = [norm(v)]
        for nm in {x.id for x in ast.walk(st_.value) if isinstance(x, ast.Name)}:
            for w in walk_no_nested(g.node):
                if isinstance(w, ast.Assign) and any(isinstance(t, ast.Name) and t.id == nm for t in w.targets):
                    texts.append(norm(w.value))
                if isinstance(w, ast.For) and any(isinstance(c, ast.Call) and isinstance(c.func, ast.Attribute) and norm(c.func.value) == nm and c.func.attr in ("setdefault", "update", "__setitem__")
                                                  for c in ast.walk(w)):
                    texts.append(norm(w.iter))
                if isinstance(w, ast.Expr) and isinstance(w.value, ast.Call) and isinstance(w.value.func, ast.Attribute) and norm(w.value.func.value) == nm and w.value.func.attr == "update":
                    texts.append(norm(w.value))
                # `for k, v in <mapping>.items(): d[k] = v` fills d from that mapping
                if isinstance(w, ast.For) and any(isinstance(x, ast.Assign) and isinstance(x.targets[0], ast.Subscript) and norm(x.targets[0].value) == nm for x in ast.walk(w)):
                    texts.append(norm(w.iter))
        return v, texts

    for attr in ("executable", "nprocs", "envars"):
        st = [s for s in walk_no_nested(g.node) if isinstance(s, ast.Assign) and any(p.endswith("." + attr) for p in stored_paths(s))]
        ok = bool(st) and any(f"getattr(obj, '{attr}', None)" in t for t in bound_value(st[0])[1])
        chk.decide(ok, "C17.R1", f"{g.key}:binds:{attr}", g.where(st[0] if st else None), f"{attr} consults the driver instance",
                   f"the bound job's `{attr}` does not consult the driver instance (obj): per-instance settings are ignored")


    # The chain consults the driver *class* before the driver *instance* (`... or getattr(objtype, X) or getattr(obj, X)`), so a
    # truthy class-level default of X on a driver class shadows what every instance was constructed with.
    drv = prog.cls("molli.pipeline.driver:DriverBase")
    for attr in ("executable", "nprocs", "memory"):
        st = [s for s in walk_no_nested(g.node) if isinstance(s, ast.Assign) and any(p.endswith("." + attr) for p in stored_paths(s))]
        if not st:
            continue
        bv = bound_value(st[0])[0]
        if not isinstance(bv, ast.BoolOp) or not isinstance(bv.op, ast.Or):
            continue
        order = [("class" if norm(v).startswith("getattr(objtype") else "instance" if norm(v).startswith("getattr(obj,") else None) for v in flat_or(bv)]
        order = [o for o in order if o]
        if order[:1] != ["class"]:
            continue
        shadow = []
        for ci in [drv] + prog.subclasses(drv):
            mem = ci.members.get(attr)
            if mem is not None and mem.attr is not None:
                v = getattr(mem.attr, "value", None)
                if v is not None and not (isinstance(v, ast.Constant) and not v.value):
                    shadow.append((ci, mem.attr, v))
        chk.decide(not shadow, "C17.R1", f"{g.key}:class-default-does-not-shadow-instance:{attr}", g.where(st[0]),
                   f"no driver class defines a truthy class-level `{attr}` (the class is consulted before the instance)",
                   (f"{shadow[0][0].name}.{attr} = {norm(shadow[0][2])} at class level: Job.__get__ consults the class before the instance, so every driver built with another "
                    f"`{attr}` still prepares its jobs with {norm(shadow[0][2])}") if shadow else "")


def r1_driver_settings(chk):
    """"reflects that driver instance's executable": what DriverBase.__init__ stores is the caller's `executable` when one is given,
    the class default only otherwise.  The assignments to self.executable that precede the lookup on the search path are tabulated
    for (given / not given) x (class default present)."""
    from ..truth import Unknown, evaluate

    prog = chk.prog
    init = prog.func("molli.pipeline.driver:DriverBase.__init__")
    chk.analysed(init)
    key = f"{init.key}:explicit-executable-wins"
    stores = []
    for s in init.node.body:
        if isinstance(s, ast.Assign) and norm(s.targets[0]) == "self.executable":
            stores.append(s)
        elif isinstance(s, ast.If) and "default_executable" in norm(s.test):
            stores += [x for x in s.body if isinstance(x, ast.Assign) and norm(x.targets[0]) == "self.executable"]
        elif isinstance(s, ast.If):
            break   # the search-path step
    chk.require(stores, f"{init.key}: self.executable is never assigned")
    bad = None
    for given in ("given", None):
        cur = None
        try:
            for s in stores:
                def lookup(n, cur=cur, given=given):
                    t = norm(n)
                    if t == "executable":
                        return given
                    if t == "self.executable":
                        return cur
                    if t == "self.default_executable" or (isinstance(n, ast.Call) and call_name(n) == "getattr" and len(n.args) >= 2 and norm(n.args[1]) == "'default_executable'"):
                        return "default"
                    return NotImplemented
                cur = evaluate(s.value, lookup)
        except Unknown as u:
            raise AnalysisError(f"{init.key}: `{short(s.value, 50)}` cannot be tabulated: {u}")
        want = given or "default"
        if cur != want:
            bad = (given, cur, s)
            break
    chk.decide(bad is None, "C17.R1", key, init.where(stores[0]), "self.executable = the given executable, else the class default",
               (f"with executable={bad[0]!r} and a class default, DriverBase.__init__ stores {bad[1]!r} (`{short(bad[2], 50)}`): "
                + ("the caller's executable is ignored in favour of the class default" if bad[0] else "the class default is not used when none is given")) if bad else "")


def r1_xtb_command_values(chk):
    """"reflects ... the caller's arguments": in every command line the xtb driver writes, the value after `--uhf` is (multiplicity - 1) both
    when the caller gives `mult` and when it is taken from the molecule, and the value after `--charge` is the caller's charge when given.
    Tabulated (precedence slips such as `mult or M.mult - 1` give `mult` itself for an explicit multiplicity)."""
    from ..truth import Unknown, evaluate

    prog = chk.prog
    n = 0
    m_ = prog.module("molli.pipeline.xtb")
    # (every `def` of the module's source: a prep / post pair shares one name, so the member table only shows the last of them)
    for fd in [x for x in ast.walk(m_.tree) if isinstance(x, ast.FunctionDef)]:
        import types as _t

        f = _t.SimpleNamespace(key=f"{m_.relpath}:{fd.name}@{fd.lineno}", node=fd, where=lambda nd=None, fd=fd: f"{m_.relpath}:{getattr(nd, 'lineno', fd.lineno)}")
        for js in [x for x in ast.walk(fd) if isinstance(x, ast.JoinedStr)]:
            vals = js.values
            for i, v in enumerate(vals):
                if isinstance(v, ast.FormattedValue) and i > 0 and isinstance(vals[i - 1], ast.Constant) and isinstance(vals[i - 1].value, str):
                    opt = vals[i - 1].value.rstrip().split(" ")[-1] if vals[i - 1].value.rstrip() else ""
                    if opt not in ("--uhf", "--charge"):
                        continue
                    n += 1
                    bad = None
                    for given in (3, None):
                        def lookup(nd, given=given):
                            t = norm(nd)
                            if t in ("mult", "charge"):
                                return given
                            if isinstance(nd, ast.Attribute) and nd.attr in ("mult", "charge"):
                                return 5
                            return NotImplemented
                        try:
                            got = evaluate(v.value, lookup)
                        except Unknown:
                            got = "?"
                            break
                        base = given if given is not None else 5
                        want = base - 1 if opt == "--uhf" else base
                        if got != want:
                            bad = (given, got, want)
                            break
                    if got == "?":
                        continue
                    chk.decide(bad is None, "C17.R1", f"{m_.relpath}:{fd.name}:{opt}", f.where(v), f"`{opt} {{{norm(v.value)}}}`",
                               (f"`{opt} {{{norm(v.value)}}}` gives {bad[1]} for " + (f"an explicit value {bad[0]}" if bad[0] is not None else "the molecule's value 5") + f" (expected {bad[2]}): "
                                "the command does not reflect the caller's argument") if bad else "")
    chk.require(n >= 4, "xtb driver: --uhf / --charge values not found")


def _is_failure_test(t):
    """true for every non-zero return code - a command killed by a signal reports a negative one - and false for 0 (tabulated)"""
    from ..truth import Unknown, evaluate

    if not any(isinstance(x, ast.Attribute) and x.attr == "returncode" for x in ast.walk(t)):
        return False
    try:
        vals = {}
        for rc in (0, 1, 2, 255, -9, -15):
            def lookup(n, rc=rc):
                if isinstance(n, ast.Attribute) and n.attr == "returncode":
                    return rc
                return NotImplemented
            vals[rc] = bool(evaluate(t, lookup))
    except Unknown:
        return False
    return vals[0] is False and all(v for k, v in vals.items() if k != 0)


def r2_runner(chk, rl):
    src = rl.node
    asg = assignments(src)
    # scratch directory
    ws = [w for w in walk_no_nested(src) if isinstance(w, ast.With) and any(isinstance(i.context_expr, ast.Call) and call_name(i.context_expr) == "TemporaryDirectory" for i in w.items)]
    ok = len(ws) == 1
    if ok:
        c = [i.context_expr for i in ws[0].items if call_name(i.context_expr) == "TemporaryDirectory"][0]
        d = kwarg(c, "dir")
        from ..canon import Env as _Env

        ok = d is not None and "scratch_dir" in norm(_Env(src).expand(d, at=ws[0]))
    chk.decide(ok, "C17.R2", f"{rl.key}:scratch-is-a-managed-tempdir", rl.where(ws[0] if ws else None), "with TemporaryDirectory(dir=scratch_dir): removed on every exit",
               "the scratch directory is not a with-managed TemporaryDirectory under the requested scratch dir: residue is left behind (or the wrong place is used)")
    # command loop
    loops = [l for l in walk_no_nested(src) if isinstance(l, ast.For) and "job.commands" in norm(l.iter)]
    chk.require(len(loops) == 1, "run_local: command loop not found")
    l = loops[0]
    it = norm(l.iter)
    chk.decide(it in ("enumerate(job.commands)", "job.commands"), "C17.R2", f"{rl.key}:commands-in-order", rl.where(l), f"for ... in {it}",
               f"commands are iterated as `{it}`, not in list order")
    runs = [c for c in walk_no_nested(l) if isinstance(c, ast.Call) and call_name(c) in ("run", "subprocess.run")]
    chk.require(len(runs) >= 1, "run_local: subprocess run(...) call not found")
    sig = set()
    for c in runs:
        cwd, env = kwarg(c, "cwd"), kwarg(c, "env")
        sig.add((norm(cwd) if cwd is not None else None, norm(env) if env is not None else None, norm(c.args[0]) if c.args else None))
    okr = len(sig) == 1 and list(sig)[0][0] == "cwd" and list(sig)[0][1] is not None and "cmd" in (list(sig)[0][2] or "")
    chk.decide(okr, "C17.R2", f"{rl.key}:run-sites-agree", rl.where(runs[0]), f"{len(runs)} run(...) site(s), all with cwd=cwd, env={list(sig)[0][1] if sig else None}",
               f"the subprocess call sites differ in cwd/env/argv: {sorted(sig, key=str)} - named and unnamed commands run under different conditions")
    envname = list(sig)[0][1] if sig else None
    ev = [norm(x) for x in asg.get(envname, []) if isinstance(x, ast.AST)] if envname else []
    chk.decide(any(x == "os.environ.copy()" or x.startswith("dict(os.environ") or x.startswith("{**os.environ") for x in ev), "C17.R2", f"{rl.key}:env-is-a-copy", rl.where(),
               f"{envname} = os.environ.copy() (+ job.envars)", f"the child environment `{envname}` is {ev}: not a copy of os.environ (the runner's own environment is modified or ignored)")
    chk.decide(any("job.envars" in norm(s) for s in walk_no_nested(src) if isinstance(s, (ast.AugAssign, ast.Assign, ast.Expr)) and envname and envname in norm(s)), "C17.R2",
               f"{rl.key}:env-overrides-applied", rl.where(), "job.envars are merged into the child environment", "job.envars never reach the child environment")
    # ... and win over what the runner inherited: in `a | b`, `{**a, **b}`, `dict(a, **b)`, `a.update(b)`, `a |= b` the right-hand side wins
    loses = None
    for s in walk_no_nested(src):
        if not (envname and isinstance(s, (ast.Assign, ast.AugAssign, ast.Expr)) and "job.envars" in norm(s) and envname in norm(s)):
            continue
        v = s.value
        if isinstance(s, ast.Assign) and isinstance(v, ast.BinOp) and isinstance(v.op, ast.BitOr):
            if "job.envars" in norm(v.left) and "job.envars" not in norm(v.right):
                loses = s
        elif isinstance(s, ast.Assign) and isinstance(v, ast.Dict) and None in v.keys:
            order = [norm(x) for k_, x in zip(v.keys, v.values) if k_ is None]
            ji = [i for i, x in enumerate(order) if "job.envars" in x]
            oi = [i for i, x in enumerate(order) if "environ" in x and "job.envars" not in x]
            if ji and oi and max(oi) > min(ji):
                loses = s
        elif isinstance(s, ast.Assign) and isinstance(v, ast.Call) and call_name(v) == "dict" and v.args and "job.envars" in norm(v.args[0]) and any(k_.arg is None and "environ" in norm(k_.value) for k_ in v.keywords):
            loses = s
        elif isinstance(s, ast.Expr) and isinstance(v, ast.Call) and isinstance(v.func, ast.Attribute) and v.func.attr == "setdefault":
            loses = s
    chk.decide(loses is None, "C17.R2", f"{rl.key}:env-overrides-win", rl.where(loses) if loses is not None else rl.where(), "job.envars take precedence over the inherited environment",
               f"`{short(loses, 60) if loses is not None else ''}` lets the inherited environment win over the job's variables: an override of a variable that is already exported "
               "(OMP_NUM_THREADS, PATH) has no effect")
    # stop at first failure: an `if <non-zero return code>:` directly in the loop body, after the run sites, that records the position and breaks
    ok = False
    where = l
    for st in l.body:
        if isinstance(st, ast.If) and _is_failure_test(st.test):
            has_break = any(isinstance(x, ast.Break) for x in st.body)
            has_fail = any(isinstance(x, ast.Assign) and norm(x.targets[0]) == "fail" for x in st.body)
            after_runs = all(c.lineno < st.lineno for c in runs)
            if has_break and has_fail and after_runs and not st.orelse:
                ok = True
                where = st
    no_other_exit = not any(isinstance(x, (ast.Continue,)) for b in l.body for x in walk_no_nested(b))
    chk.decide(ok and no_other_exit, "C17.R2", f"{rl.key}:stops-at-first-failure", rl.where(where), "non-zero return code -> fail = i; break",
               "the command loop is not left at the first non-zero return code (later commands still run, or the failure position is not recorded)")
    # captured output: the file a named command's stdout / stderr goes to is the file read back into stdouts / stderrs
    # a variable that walks a list of names stands for what was put into that list: `for n2 in names` with `names.append(name)` -> n2 is `name`
    walks = {}
    for lp in [x for x in walk_no_nested(src) if isinstance(x, ast.For) and isinstance(x.target, ast.Name) and isinstance(x.iter, ast.Name)]:
        put = {norm(c.args[0]) for c in walk_no_nested(src) if isinstance(c, ast.Call) and norm(c.func) == f"{lp.iter.id}.append" and len(c.args) == 1 and isinstance(c.args[0], ast.Name)}
        if len(put) == 1:
            walks[lp.target.id] = put.pop()

    def tmpl(e):
        """path templates an expression can stand for ('{name}.out'), '<devnull>' for the null device"""
        if isinstance(e, ast.JoinedStr):
            return {"".join(v.value if isinstance(v, ast.Constant) else "{" + walks.get(norm(v.value), norm(v.value)) + "}" for v in e.values)}
        if isinstance(e, ast.Constant) and isinstance(e.value, str):
            return {e.value}
        if norm(e) in ("os.devnull", "DEVNULL", "subprocess.DEVNULL"):
            return {"<devnull>"}
        if isinstance(e, ast.IfExp):
            return tmpl(e.body) | tmpl(e.orelse)
        if isinstance(e, ast.Call) and call_name(e) in ("Path", "str", "os.fspath") and len(e.args) == 1:
            return tmpl(e.args[0])
        if isinstance(e, ast.BinOp) and isinstance(e.op, ast.Add):
            return {a + b for a in tmpl(e.left) for b in tmpl(e.right)} or set()
        if isinstance(e, ast.Name):
            out = set()
            for v in asg.get(e.id, []):
                if isinstance(v, tuple) and v[0] == "unpack":
                    out |= elem(v[1], v[2])
                elif isinstance(v, ast.AST):
                    out |= tmpl(v)
            return out
        return set()

    def elem(e, k):
        if isinstance(e, ast.IfExp):
            return elem(e.body, k) | elem(e.orelse, k)
        if isinstance(e, ast.Tuple) and k < len(e.elts):
            return tmpl(e.elts[k])
        if isinstance(e, ast.BinOp) and isinstance(e.op, ast.Mult) and isinstance(e.left, ast.Tuple) and len(e.left.elts) == 1:
            return tmpl(e.left.elts[0])
        return set()

    def open_call(e):
        """the open(...) call behind an expression: open(..), stack.enter_context(open(..))"""
        if isinstance(e, ast.Call) and call_name(e) == "open" and e.args:
            return e
        if isinstance(e, ast.Call) and isinstance(e.func, ast.Attribute) and e.func.attr == "enter_context" and len(e.args) == 1:
            return open_call(e.args[0])
        return None

    def mode_of(c):
        return norm(c.args[1]) if len(c.args) > 1 else (norm(kwarg(c, "mode")) if kwarg(c, "mode") is not None else "'r'")

    binds = {}   # file variable -> [(templates, mode, region that the binding is good for)]
    for w in walk_no_nested(src):
        if isinstance(w, ast.With):
            for it_ in w.items:
                oc = open_call(it_.context_expr)
                if oc is not None and isinstance(it_.optional_vars, ast.Name):
                    binds.setdefault(it_.optional_vars.id, []).append((tmpl(oc.args[0]), mode_of(oc), w))
        if isinstance(w, ast.Assign) and all(isinstance(t, ast.Name) for t in w.targets):
            oc = open_call(w.value)
            region = next((lp for lp in walk_no_nested(src) if isinstance(lp, (ast.For, ast.While)) and any(x is w for x in ast.walk(lp))), src)
            for t in w.targets:
                if oc is not None:
                    binds.setdefault(t.id, []).append((tmpl(oc.args[0]), mode_of(oc), region))
                elif tmpl(w.value) == {"<devnull>"}:
                    binds.setdefault(t.id, []).append(({"<devnull>"}, "'w'", region))

    def file_of(name, use):
        cands = [b for b in binds.get(name, []) if any(x is use for x in ast.walk(b[2]))]
        inner = [b for b in cands if isinstance(b[2], ast.With)] or cands
        return inner

    written = {"stdout": set(), "stderr": set()}
    for c in runs:
        for kw_ in ("stdout", "stderr"):
            v = kwarg(c, kw_)
            if v is None:
                continue
            if isinstance(v, ast.Name) and v.id in binds:
                for t_, mode, _ in file_of(v.id, c):
                    if "w" in mode or "a" in mode:
                        written[kw_] |= t_
            else:
                written[kw_] |= tmpl(v)
    read = {"stdouts": set(), "stderrs": set()}

    def read_src(v):
        """templates of the file whose text the expression reads"""
        if isinstance(v, ast.Call) and isinstance(v.func, ast.Attribute) and v.func.attr in ("read", "read_text"):
            b = v.func.value
            if isinstance(b, ast.Name) and b.id in binds:
                out = set()
                for t_, mode, _ in file_of(b.id, v):
                    if "w" not in mode:
                        out |= t_
                return out
            if isinstance(b, ast.Call) and call_name(b) in ("Path", "open") and b.args:
                return tmpl(b.args[0])
        return set()

    for s_ in walk_no_nested(src):
        if isinstance(s_, ast.Assign) and isinstance(s_.targets[0], ast.Subscript) and norm(s_.targets[0].value) in read:
            read[norm(s_.targets[0].value)] |= read_src(s_.value)
        if isinstance(s_, ast.Assign) and isinstance(s_.targets[0], ast.Name) and s_.targets[0].id in read and isinstance(s_.value, ast.DictComp):
            read[s_.targets[0].id] |= read_src(s_.value.value)
    w_out, w_err = written["stdout"] - {"<devnull>"}, written["stderr"] - {"<devnull>"}
    chk.require(w_out and w_err and read["stdouts"] and read["stderrs"], "run_local: where the captured output of a named command is written and read back was not found")
    chk.decide(w_out | w_err == read["stdouts"] | read["stderrs"] and len(w_out) == 1 and len(w_err) == 1 and w_out != w_err, "C17.R2", f"{rl.key}:captures-read-back-under-same-name", rl.where(),
               f"written {sorted(w_out | w_err)} == read {sorted(read['stdouts'] | read['stderrs'])}", f"capture files written as {sorted(w_out | w_err)} but read back as {sorted(read['stdouts'] | read['stderrs'])}")
    chk.decide(w_out == read["stdouts"] and w_err == read["stderrs"], "C17.R2", f"{rl.key}:stdout-stderr-not-crossed", rl.where(),
               f"stdout -> {sorted(w_out)} -> stdouts, stderr -> {sorted(w_err)} -> stderrs",
               f"the child's stdout goes to {sorted(w_out)} and stderr to {sorted(w_err)}, but stdouts is read from {sorted(read['stdouts'])} and stderrs from {sorted(read['stderrs'])}")
    # the captures that are read back are those of exactly the commands that were started - the failing one included, none that never ran
    from ..canon import Env as _Env
    from ..cfg import CFG as _CFG

    key_cov = f"{rl.key}:captures-of-exactly-the-commands-that-ran"
    read_stmts = [s_ for s_ in walk_no_nested(src) if isinstance(s_, ast.Assign) and (
        (isinstance(s_.targets[0], ast.Subscript) and norm(s_.targets[0].value) in read) or (isinstance(s_.targets[0], ast.Name) and s_.targets[0].id in read and isinstance(s_.value, ast.DictComp)))]
    in_loop = [s_ for s_ in read_stmts if any(x is s_ for x in ast.walk(l))]
    named_runs = [c for c in runs if any(t_ - {"<devnull>"} for kw_ in ("stdout",) for t_ in ([set().union(*[b[0] for b in file_of(kwarg(c, kw_).id, c)])] if isinstance(kwarg(c, kw_), ast.Name) and kwarg(c, kw_).id in binds else [tmpl(kwarg(c, kw_))] if kwarg(c, kw_) is not None else []))]
    chk.require(named_runs, "run_local: the run site of a named command was not found")
    cfg_r = _CFG(src)

    def nid(stmt_or_expr):
        return {n_.id for n_ in cfg_r.nodes if n_.ast is not None and n_.kind in ("stmt", "with", "test", "for") and any(x is stmt_or_expr for x in ast.walk(n_.ast if n_.kind == "stmt" else (n_.ast.items[0].context_expr if n_.kind == "with" else n_.ast)))}

    def run_nodes():
        out = set()
        for n_ in cfg_r.nodes:
            if n_.kind == "stmt" and any(x is c for c in named_runs for x in ast.walk(n_.ast)):
                out.add(n_.id)
        return out

    rn = run_nodes()
    problems = []
    if in_loop:
        # read inside the command loop: every way on from the run of a named command passes the read-back, also the way out on failure
        rd = {n_.id for n_ in cfg_r.nodes if n_.kind == "stmt" and any(n_.ast is s_ for s_ in in_loop)}
        hdr = {n_.id for n_ in cfg_r.nodes if n_.ast is l and n_.kind in ("for", "test")}
        after = {n_.id for n_ in cfg_r.nodes if n_.kind == "stmt" and n_.ast is not None and not any(x is n_.ast for x in ast.walk(l)) and getattr(n_.ast, "lineno", 0) > l.lineno}
        pth = cfg_r.path(list(rn), hdr | after | {cfg_r.exit}, avoid=rd, edge_ok=lambda a, b, lab: lab not in ("exc", "raise", "except"))
        if pth is not None:
            problems.append("after a named command has run there is a way on (" + cfg_r.describe_path(pth)[:120] + ") that skips reading its captured output back: "
                            "the command that fails is exactly the one whose stdout / stderr is missing from the JobOutput")
    else:
        srcs = []
        for s_ in read_stmts:
            if isinstance(s_.value, ast.DictComp) and isinstance(s_.targets[0], ast.Name):
                srcs.append((s_, s_.value.generators[0].iter))
            else:
                lp = [f_ for f_ in walk_no_nested(src) if isinstance(f_, ast.For) and any(x is s_ for x in ast.walk(f_))]
                if lp:
                    srcs.append((s_, lp[-1].iter))
        chk.require(srcs, "run_local: the loop that reads the captures back was not found")
        env_r = _Env(src)
        for s_, it_ in srcs[:1]:
            e = env_r.expand(it_, keep={"fail", "job"}, at=s_)
            txt = norm(e)
            coll = it_.id if isinstance(it_, ast.Name) else None
            apps = [c for c in walk_no_nested(l) if isinstance(c, ast.Call) and isinstance(c.func, ast.Attribute) and c.func.attr == "append" and coll and norm(c.func.value) == coll]
            if apps:
                from ..canon import path_conditions as _pc

                an = {n_.id for n_ in cfg_r.nodes if n_.kind == "stmt" and any(x is a_ for a_ in apps for x in ast.walk(n_.ast))}
                hdr = [n_.id for n_ in cfg_r.nodes if n_.ast is l and n_.kind in ("for", "test")]
                # statements that only run for an unnamed command are not on the way of a named one
                nmvar = norm(l.target.elts[-1].elts[-1]) if isinstance(l.target, ast.Tuple) and isinstance(l.target.elts[-1], ast.Tuple) else (norm(l.target.elts[-1]) if isinstance(l.target, ast.Tuple) else "name")
                unnamed = {n_.id for n_ in cfg_r.nodes if n_.kind == "stmt" and n_.ast is not None and any(x is n_.ast for x in ast.walk(l))
                           and any(norm(c_) in (f"{nmvar} is None", f"not {nmvar}") for c_ in _pc(src, n_.ast))}
                # ... and a way that takes the "no name" side of a test on the name is not the way of a named command either
                def _named_way(a, b, lab):
                    if lab in ("exc", "raise", "except"):
                        return False
                    na = cfg_r.nodes[a]
                    if na.kind == "test" and isinstance(na.ast, ast.If):
                        t_ = norm(na.ast.test)
                        if t_ in (f"{nmvar} is not None", nmvar) and lab == "false":
                            return False
                        if t_ in (f"{nmvar} is None", f"not {nmvar}") and lab == "true":
                            return False
                    return True

                if cfg_r.path(cfg_r.succs(hdr[0]) if hdr else [cfg_r.entry], rn - unnamed, avoid=an | unnamed, edge_ok=_named_way) is not None:
                    problems.append(f"a named command can run without its name being recorded in `{coll}`: its captured output is never read back")
            elif "job.commands" in txt and "fail" in names_in(e) and "[:fail + 1]" in txt:
                pass  # the commands up to and including the failing one
            elif "job.commands" in txt:
                problems.append(f"the captures are read back for `{short(e, 60)}` - every named command of the job, whether it was started or not: when a command fails, the "
                                "capture file of a later named command does not exist, reading it raises FileNotFoundError and the runner dies without writing its output file")
            else:
                raise AnalysisError(f"run_local: cannot tell which commands' captures `{short(e, 60)}` stands for")
    chk.decide(not problems, "C17.R2", key_cov, rl.where(read_stmts[0] if read_stmts else l), "read back for every named command that was started, and for no other", "; ".join(problems))
    # return files
    rf = [x for x in asg.get("retfiles", []) if isinstance(x, ast.DictComp)]
    ok = len(rf) == 1 and "read_bytes()" in norm(rf[0].value) and "job.return_files" in norm(rf[0].generators[0].iter) and any("is_file" in norm(i) for i in rf[0].generators[0].ifs) \
        and norm(rf[0].key) in (f"str({norm(rf[0].generators[0].target)})", norm(rf[0].generators[0].target))
    chk.decide(ok, "C17.R2", f"{rl.key}:return-files-bytes", rl.where(rf[0] if rf else None), "{name: read_bytes() for requested files that exist}",
               "the requested files are not returned byte for byte under their own names")
    # input hash
    jh = [norm(x) for x in asg.get("job_hash", []) if isinstance(x, ast.AST)]
    out = calls_named(src, {"ml.pipeline.JobOutput", "JobOutput"})
    chk.require(len(out) == 1, "run_local: JobOutput construction not found")
    ih = kwarg(out[0], "input_hash")
    chk.decide(jh == ["job.hash"] and ih is not None and norm(ih) == "job_hash", "C17.R2", f"{rl.key}:input-hash", rl.where(out[0]), "input_hash = hash of the loaded job",
               f"recorded input_hash is {norm(ih) if ih is not None else None} (job_hash = {jh})")
    # input files are materialised before the commands run, text as text and bytes as bytes
    fl = [f for f in walk_no_nested(src) if isinstance(f, ast.For) and "job.files" in norm(f.iter)]
    ok = len(fl) == 1 and fl[0].lineno < l.lineno and '"wt"' in norm(fl[0]).replace("'", '"') and '"wb"' in norm(fl[0]).replace("'", '"')
    chk.decide(ok, "C17.R2", f"{rl.key}:input-files-materialised-first", rl.where(fl[0] if fl else None), "job.files written (text/binary) before the command loop",
               "the input files are not written (in text and binary mode as appropriate) before the commands run")


# --- the outcome of a run, classified over a finite model -----------------------------------------------------------------
# worlds: fail (position of the first failing command or None) x proc.returncode of the last command run (0 iff nothing
# failed) x (requested files Q, returned files R subseteq Q).  "success" = nothing failed and every requested file came back.
_QR = [((), ()), (("a", "b"), ("a", "b")), (("a", "b"), ("a",)), (("a", "b"), ())]
WORLDS = [dict(fail=f, rc=(0 if f is None else rc), Q=q, R=r) for f in (None, 0, 1) for rc in ((0,) if f is None else (1, 2)) for q, r in _QR]


def _is_success(w):
    return w["fail"] is None and set(w["Q"]) == set(w["R"])


def _world_lookup(w):
    from ..truth import Unknown

    def lookup(n):
        t = norm(n)
        if t == "fail":
            return w["fail"]
        if t == "retfiles":
            return {k: b"" for k in w["R"]}
        if isinstance(n, ast.Attribute) and n.attr == "return_files":
            return list(w["Q"])
        if isinstance(n, ast.Attribute) and n.attr == "returncode":
            return w["rc"]
        if isinstance(n, ast.Name) and n.id not in ("set", "len", "bool", "any", "all", "sorted", "list", "tuple", "frozenset", "int", "str", "True", "False", "None"):
            raise Unknown(f"`{n.id}` is not one of the quantities the outcome may depend on (failure position, return code, requested / returned files)")
        return NotImplemented
    return lookup


def _outcome_view(rl):
    """run_local with control-flow-decided values folded into expressions, and the environment that spells locals out"""
    from ..canon import Env, ifexp_assignments

    v = ifexp_assignments(rl)
    return v, Env(v.node)


def _value_table(expr, env, at, conds=()):
    """[(world, value | None when a path condition excludes the world)], or raises AnalysisError naming what is not understood"""
    from ..truth import Unknown, evaluate

    e = env.expand(expr, keep={"fail", "retfiles", "job", "proc"}, at=at, depth=8)
    cs = [env.expand(c, keep={"fail", "retfiles", "job", "proc"}, at=at, depth=8) for c in conds]
    rows = []
    for w in WORLDS:
        lk = _world_lookup(w)
        try:
            live = True
            for c in cs:
                try:
                    if not evaluate(c, lk):
                        live = False
                        break
                except Unknown:
                    continue  # a condition about something else: may hold
            rows.append((w, evaluate(e, lk) if live else None, live))
        except Unknown as u:
            raise AnalysisError(f"run_local: `{short(e, 70)}` - {u}: not a form whose meaning can be tabulated")
    return e, rows


def _stmt_of(root, node):
    """the innermost statement that contains `node`"""
    best = None
    for s_ in ast.walk(root):
        if isinstance(s_, ast.stmt) and s_ is not root and any(x is node for x in ast.walk(s_)):
            n = sum(1 for _ in ast.walk(s_))
            if best is None or n < best[0]:
                best = (n, s_)
    return best[1]


def _describe(w):
    return ("no command failed" if w["fail"] is None else f"command {w['fail']} failed (return code {w['rc']})") + ", requested " + str(list(w["Q"])) + ", returned " + str(list(w["R"]))


def r3_exit(chk, rl):
    """`exits 0 iff every command succeeded and every requested file exists`: every exit call of run_local is tabulated -
    the conditions under which it runs (path conditions) and the status it passes - over the worlds above."""
    from ..canon import path_conditions

    v, env = _outcome_view(rl)
    key = f"{rl.key}:success-exit-only-when-everything-succeeded"
    exits = [c for c in walk_no_nested(v.node) if isinstance(c, ast.Call) and call_name(c) in ("exit", "sys.exit", "os._exit")]
    chk.require(exits, "run_local: no exit() call")
    status = {id(w): set() for w in WORLDS}
    shown = []
    for c in exits:
        stmt = _stmt_of(v.node, c)
        pcs = path_conditions(v.node, stmt)
        arg = c.args[0] if c.args else ast.Constant(0)
        e, rows = _value_table(arg, env, stmt, pcs)
        shown.append(short(e, 50))
        for w, val, live in rows:
            if live:
                status[id(w)].add(0 if val in (None, False, 0) else (val if isinstance(val, int) else 1))
    bad = None
    for w in WORLDS:
        st = status[id(w)]
        if _is_success(w) and st != {0}:
            bad = (w, f"exits {sorted(st) if st else 'nowhere'} although everything succeeded")
            break
        if not _is_success(w) and (0 in st or not st):
            bad = (w, "exits 0" if 0 in st else "reaches no exit call")
            break
    missing_only = [w for w in WORLDS if w["fail"] is None and set(w["Q"]) != set(w["R"])]
    why = ""
    if bad and bad[0] in missing_only:
        why = ": the test that should notice a missing requested file never does (only requested files are ever returned, so e.g. `returned - requested` / `returned <= requested` say nothing)"
    chk.decide(bad is None, "C17.R3", key, rl.where(exits[0]),
               f"exit status tabulated over {len(WORLDS)} outcomes ({', '.join(shown)}): 0 exactly when nothing failed and every requested file came back",
               (f"when {_describe(bad[0])} the process {bad[1]}{why}: the process can exit 0 although a command failed or a requested file is missing" if bad else ""))


def r4_recorded(chk, rl, rule):
    """the exit code stored in the JobOutput (what jobmap's cache test reads) is 0 exactly in the success worlds"""
    v, env = _outcome_view(rl)
    out = calls_named(v.node, {"ml.pipeline.JobOutput", "JobOutput"})
    chk.require(len(out) == 1, "run_local: JobOutput construction not found")
    ec = kwarg(out[0], "exitcode")
    chk.require(ec is not None, "run_local: JobOutput(exitcode=...) not found")
    stmt = _stmt_of(v.node, out[0])
    key = f"{rl.key}:recorded-exitcode-tells-what-the-exit-status-tells"
    e, rows = _value_table(ec, env, stmt)
    bad = None
    for w, val, live in rows:
        zero = val in (None, False, 0)
        if _is_success(w) != zero:
            bad = (w, val)
            break
    chk.decide(bad is None, rule, key, rl.where(out[0]), f"JobOutput.exitcode = `{short(e, 70)}`: 0 exactly when nothing failed and every requested file came back ({len(WORLDS)} outcomes tabulated)",
               (f"JobOutput(exitcode=`{short(e, 70)}`) is {bad[1]!r} when {_describe(bad[0])}"
                + (": the process exits 1 but records exitcode 0, and jobmap caches the run as a success and never repeats it" if bad[1] in (0, None, False) else "")) if bad else "")


def r5_job_codec(chk):
    """What is hashed is what is dumped is what is loaded: JobInput.hash digests msgpack(attrs.asdict(self)); dump must write that
    very mapping and load must rebuild the object from it, otherwise the hash the runner records (of the *loaded* job) differs from
    the caller's and every cached output looks stale."""
    prog = chk.prog
    for cname in ("JobInput", "JobOutput"):
        ci = prog.cls(f"{JOB}:{cname}")
        d = prog.method(ci, "dump")
        l = prog.method(ci, "load")
        chk.require(d is not None and l is not None, f"{cname}.dump/load vanished")
        chk.analysed(d, l)
        dc = [c for c in walk_no_nested(d.node) if isinstance(c, ast.Call) and call_name(c) in ("msgpack.dump", "msgpack.dumps", "msgpack.pack", "msgpack.packb")]
        from ..canon import Env as _E5d

        okd = len(dc) == 1 and norm(_E5d(d.node).expand(dc[0].args[0], at=dc[0])) == "attrs.asdict(self)" and not [k for k in dc[0].keywords if k.arg not in (None,)]
        if okd and isinstance(dc[0].args[0], ast.Name):
            nm_d = dc[0].args[0].id
            okd = not any((isinstance(x, (ast.Assign, ast.AugAssign, ast.Delete)) and any(p_.startswith(nm_d + "[") for p_ in stored_paths(x)))
                          or (isinstance(x, ast.Call) and isinstance(x.func, ast.Attribute) and norm(x.func.value) == nm_d and x.func.attr in ("update", "pop", "clear", "setdefault", "popitem", "__setitem__"))
                          for x in walk_no_nested(d.node))
        chk.decide(okd, "C17.R5", f"{d.key}:dumps-asdict-unmodified", d.where(dc[0] if dc else None), "msgpack.dump(attrs.asdict(self), f)",
                   f"{cname}.dump serialises `{norm(dc[0].args[0]) if dc else None}`, not attrs.asdict(self) as is: the object read back differs from the one written"
                   + (" and hashes differently, so input_hash never matches the caller's hash" if cname == "JobInput" else ""))
        lc = [r for r in walk_no_nested(l.node) if isinstance(r, ast.Return)]
        # the mapping may be named before it is handed to the constructor - but nothing may touch it in between
        okl = False
        if len(lc) == 1:
            rv = _E5d(l.node).expand(lc[0].value, at=lc[0])
            okl = norm(rv) in ("cls(**msgpack.load(f))", "cls(**msgpack.unpack(f))", "cls(**msgpack.loads(f.read()))")
            if okl and isinstance(lc[0].value, ast.Call) and lc[0].value.keywords and isinstance(lc[0].value.keywords[0].value, ast.Name):
                nm_l = lc[0].value.keywords[0].value.id
                okl = not any((isinstance(x, (ast.Assign, ast.AugAssign, ast.Delete)) and any(p_.startswith(nm_l + "[") for p_ in stored_paths(x)))
                              or (isinstance(x, ast.Call) and isinstance(x.func, ast.Attribute) and norm(x.func.value) == nm_l and x.func.attr in ("update", "pop", "clear", "setdefault", "popitem", "__setitem__"))
                              or (isinstance(x, ast.Call) and any(isinstance(a_, ast.Name) and a_.id == nm_l for a_ in x.args) and x is not lc[0].value)
                              for x in walk_no_nested(l.node))
        chk.decide(okl, "C17.R5", f"{l.key}:rebuilds-from-mapping", l.where(lc[0] if lc else None), "cls(**msgpack.load(f))", f"{cname}.load does not rebuild the object from the stored mapping as is")
    h = prog.func(f"{JOB}:JobInput.hash", "getter")
    chk.analysed(h)
    hc = [c for c in walk_no_nested(h.node) if isinstance(c, ast.Call) and call_name(c) in ("msgpack.dumps", "msgpack.packb")]
    from ..canon import Env as _E5

    harg = norm(_E5(h.node).expand(hc[0].args[0], at=hc[0])) if len(hc) == 1 else None
    if len(hc) == 1 and isinstance(hc[0].args[0], ast.Name):
        # a local that names the mapping must reach the digest as it was built
        nm_ = hc[0].args[0].id
        touched = [x for x in walk_no_nested(h.node) if (isinstance(x, (ast.Assign, ast.AugAssign, ast.Delete)) and any(p_.startswith(nm_ + "[") for p_ in stored_paths(x)))
                   or (isinstance(x, ast.Call) and isinstance(x.func, ast.Attribute) and norm(x.func.value) == nm_ and x.func.attr in ("update", "pop", "clear", "setdefault", "popitem", "__setitem__"))]
        if touched:
            harg = f"{harg} altered by `{short(touched[0], 50)}`"
    chk.decide(len(hc) == 1 and harg == "attrs.asdict(self)", "C17.R5", f"{h.key}:digest-of-asdict", h.where(), "hash = digest(msgpack.dumps(attrs.asdict(self)))",
               "JobInput.hash does not digest the same mapping that dump writes")


# ---------------------------------------------------------------------------------------------------------------------------
def r6_bound_job_is_fresh(chk):
    """What `Job.__get__` hands out is made in that very call: every `return` gives a local that was bound to `copy(self)` (or a new
    instance) in this call, and nothing is parked on the driver instance (`obj.__dict__[...] = bound`, setattr(obj, ...)).  A bound job
    remembered per driver freezes executable / nprocs / envars at the first access: reconfigure the driver between two runs and
    the old settings are prepared again."""
    prog = chk.prog
    g = prog.func(f"{JOB}:Job.__get__")
    chk.analysed(g)
    obj = g.params()[1]
    asg = assignments(g.node)
    fresh = {n for n, vals in asg.items() if vals and all(isinstance(v, ast.Call) and (call_name(v) in ("copy", "copy.copy", "copy.deepcopy", "deepcopy", "type(self)", "self.__class__", "Job")
                                                                                        or norm(v.func) in ("type(self)", "self.__class__")) for v in vals)}
    rets = [r for r in walk_no_nested(g.node) if isinstance(r, ast.Return) and r.value is not None]
    chk.require(len(rets) >= 1, "Job.__get__ returns nothing")
    stale = [r for r in rets if not (isinstance(r.value, ast.Name) and r.value.id in fresh) and norm(r.value) != "self"]
    # aliases of the driver's namespace
    ns = {obj} | {n for n, vals in asg.items() if any((isinstance(v, ast.Call) and call_name(v) in ("getattr", "vars") and v.args and norm(v.args[0]) == obj) or
                                                        (isinstance(v, ast.Attribute) and norm(v.value) == obj and v.attr == "__dict__") for v in vals)}
    parked = [t for t in walk_no_nested(g.node) if isinstance(t, (ast.Assign, ast.AugAssign)) and any(p_.split(".")[0].split("[")[0] in ns and ("." in p_ or "[" in p_) for p_ in stored_paths(t))]
    parked += [c for c in walk_no_nested(g.node) if isinstance(c, ast.Call) and ((call_name(c) == "setattr" and c.args and norm(c.args[0]) in ns) or
                                                                                  (isinstance(c.func, ast.Attribute) and c.func.attr in ("setdefault", "update", "__setattr__") and norm(c.func.value).split(".")[0] in ns))]
    key = f"{g.key}:hands-out-a-job-made-in-this-call"
    if stale or parked:
        w = stale[0] if stale else parked[0]
        chk.fail("C17.R1", key, g.where(w), f"`{short(w, 60)}`: Job.__get__ " + ("returns something it did not make in this call" if stale else "parks the bound job on the driver instance") +
                 " - the settings (executable, nprocs, envars) are those of the first access; a driver reconfigured between two runs prepares the old command again")
    else:
        chk.ok("C17.R1", key, g.where(rets[0]), f"{len(rets)} return(s), each of a copy made in this call ({sorted(fresh)}); nothing stored on `{obj}`")


def r6_no_state_shared_between_drivers(chk):
    """Nothing reachable from the driver constructor or from the descriptor keeps module-level state (a cache of PATH lookups keyed
    by the program's default name makes the second driver instance with another executable prepare the first one's command)."""
    from . import c12

    prog = chk.prog
    eff = c12.effects(prog)
    for spec in ("molli.pipeline.driver:DriverBase.__init__", f"{JOB}:Job.__get__"):
        root = prog.func(spec)
        chk.analysed(root)
        c12.r2_no_hidden_state(chk, root, eff, "C17.R1")


def r7_vectorised_wrappers_forward(chk):
    """`prepare` / `process` of a vectorised job are `_prepare_iter` / `_process_iter`: each hands the caller's extra positional and keyword
    arguments on to the per-item function (a rewrite around map / partial that keeps **kwargs and loses *args builds every command
    with the defaults)."""
    prog = chk.prog
    job = prog.cls(f"{JOB}:Job")
    n = 0
    for wrapper, inner in (("_prepare_iter", "_prepare"), ("_process_iter", "_process")):
        f = prog.method(job, wrapper)
        if f is None:
            continue
        n += 1
        chk.analysed(f)
        va, kw = f.node.args.vararg, f.node.args.kwarg
        chk.require(va is not None and kw is not None, f"Job.{wrapper} no longer takes *args / **kwargs")
        calls = [c for c in ast.walk(f.node) if isinstance(c, ast.Call) and (norm(c.func) in (f"self.{inner}",) or
                                                                            ((call_name(c) or "").split(".")[-1] == "partial" and c.args and norm(c.args[0]) == f"self.{inner}"))]
        chk.require(len(calls) >= 1, f"Job.{wrapper}: the call of self.{inner} was not found")
        c = calls[0]
        star = any(isinstance(a, ast.Starred) and norm(a.value) == va.arg for a in c.args)
        dstar = any(k.arg is None and norm(k.value) == kw.arg for k in c.keywords)
        chk.decide(star and dstar, "C17.R7", f"{f.key}:forwards-args-and-kwargs", f.where(c), f"self.{inner}(..., *{va.arg}, **{kw.arg})",
                   f"Job.{wrapper} calls `{short(c, 60)}`: " + ("*" + va.arg if not star else "**" + kw.arg) + f" of the caller is dropped - a vectorised job called with extra "
                   "arguments prepares every command with the defaults (`--charge 0 --uhf 0` instead of the requested values)")
    chk.require(n >= 1, "no vectorised wrapper found on Job")


def r8_runner_leaves_through_the_cleanup(chk, rl):
    """The runner works in a TemporaryDirectory and leaves by raising SystemExit (`exit(code)` / `sys.exit`), which unwinds the `with`
    blocks: the scratch directory is removed whatever the outcome.  `os._exit` reachable from run_local ends the process on the spot -
    a failing job leaves its scratch directory (and unflushed captures) behind."""
    from . import c12

    prog = chk.prog
    eff = c12.effects(prog)
    paths = eff.reach([rl])
    hard = []
    for k in paths:
        fn = eff.funcs[k]
        if not fn.module.name.startswith("molli.pipeline"):
            continue
        for c in ast.walk(fn.node):
            if isinstance(c, ast.Call) and (call_name(c) or "") in ("os._exit", "_exit", "os.abort", "os.kill"):
                hard.append((fn, c))
    # a module-level function that takes the name of the builtin the runner leaves through
    shadow = [f_ for f_ in prog.functions([RUN]) if f_.qualname in ("exit", "quit")]
    key = f"{rl.key}:leaves-by-unwinding"
    if hard:
        fn, c = hard[0]
        chk.fail("C17.R2", key, fn.where(c), f"`{short(c, 40)}` in {fn.qualname} is reachable from run_local: the process ends without unwinding `with TemporaryDirectory(...)` - "
                 "the scratch directory of a failing job is left behind")
    else:
        chk.ok("C17.R2", key, rl.where(), f"{len(paths)} function(s) reachable from run_local, none ends the process without unwinding" + (f"; `{shadow[0].qualname}` shadows the builtin (noted)" if shadow else ""))


def r5b_loaders_and_converters(chk):
    """(a) JobInput.load / JobOutput.load read the file on every call (a memoised loader keeps answering with what the file held the first
    time: a job that failed in run 1 and succeeds in run 2 is judged by the old output).  (b) a converter on a JobInput / JobOutput field
    keeps every entry it is given: `{k: v for k, v in d.items() if v}` drops an override to the empty string (CUDA_VISIBLE_DEVICES="")."""
    prog = chk.prog
    for cname in ("JobInput", "JobOutput"):
        ci = prog.cls(f"{JOB}:{cname}")
        hit = prog.lookup(ci, "load")      # own method, or inherited from a private base record class
        mem = hit[1] if hit is not None else None
        chk.require(mem is not None and mem.func is not None, f"{cname}.load vanished")
        memo = [norm(d) for d in mem.func.decorator_list if any(k_ in norm(d) for k_ in ("cache", "lru_cache"))]
        chk.decide(not memo, "C17.R5", f"{ci.module.relpath}:{cname}.load:reads-the-file-on-every-call", f"{ci.module.relpath}:{mem.func.lineno}", "not memoised",
                   f"{cname}.load is memoised ({', '.join(memo)}): within one process a rewritten file is never read again - the outcome of an earlier run is reported for the current one")
        for fld in prog.fields(ci):
            conv = fld.get("converter")
            if conv is None:
                continue
            fn = prog.func(f"{JOB}:{norm(conv)}") if isinstance(conv, ast.Name) and prog.has_func(f"{JOB}:{norm(conv)}") else None
            body = fn.node if fn is not None else conv
            bad = None
            for comp in [x for x in ast.walk(body) if isinstance(x, ast.comprehension)]:
                tnames = {n.id for n in ast.walk(comp.target) if isinstance(n, ast.Name)}
                for c in comp.ifs:
                    t = c.operand if isinstance(c, ast.UnaryOp) and isinstance(c.op, ast.Not) else c
                    if isinstance(t, ast.Name) and t.id in tnames:
                        bad = bad or c
            chk.decide(bad is None, "C17.R5", f"{ci.module.relpath}:{cname}.{fld['name']}:converter-keeps-every-entry", f"{ci.module.relpath}:{fld['node'].lineno}",
                       f"converter `{short(conv, 30)}` keeps every entry",
                       f"the converter of {cname}.{fld['name']} drops entries by truthiness (`if {short(bad, 20) if bad is not None else ''}`): an environment override to the empty string "
                       "vanishes from the job - the command runs with the parent's value")
