"""
C05 - atoms, bonds, coordinates and charges stay aligned under every edit history.

Alignment under every history follows if every primitive that changes the number of
atoms changes every per-atom container, and nobody else touches the containers.
  R1  co-override of the size-changing primitives along the static MRO (del_atom /
      add_atom / append_atom): each container-owning class overrides the primitive, calls
      super() on every normal path, changes its own container by the same row, and - for
      deletion - computes the row index before the atom is removed
  R2  what is appended to the charge array is a number (a None default may not flow in)
  R3  only the owner writes a container (no foreign rebinds, no list mutators on .atoms/.bonds)
  R4  parent bookkeeping: every insertion into _atoms / _bonds sets the element's parent
  R5  views: Substructure.coords getter and setter index the parent identically
  R6  a failing add_atom changes nothing: validation precedes the first mutation
  R7  sibling resolvers agree: get_atom and get_atom_index (AtomLike -> atom / row index) dispatch on
      the same type cases, and no case is shadowed by an earlier case for a superclass (Element is an
      IntEnum, so `case int()` captures it) - otherwise the atom that is deleted and the row that is
      deleted differ
Not decided: that values stay attached to atom identity (numpy append/delete trusted).
"""
from __future__ import annotations

import ast

from ..cfg import CFG
from ..core import AnalysisError, assignments, call_name, dotted, names_in, short, walk_no_nested
from ..util import MUTATORS, calls_named, has_call, kwarg, norm, stored_paths

EXPLANATION = (
    "Container co-update across the statically linearised class chain Molecule -> Structure -> "
    "CartesianGeometry -> Connectivity -> Promolecule: for each primitive that grows or shrinks the atom "
    "list and each class that owns a per-atom container (_bonds, _coords, _atomic_charges) the override "
    "must exist, reach super() on every normal CFG path, resize its own container along axis 0 with an "
    "index computed before the atom disappears; plus a who-may-write rule for the containers over the "
    "package, parent bookkeeping at every insertion site, None-flow into the charge array, identical "
    "indexing in the Substructure coordinate view, and validation-before-mutation in add_atom."
)
ASSUMPTIONS = ["numpy.append / numpy.delete along axis 0 add / remove exactly the addressed row"]
FLOORS = {"C05.R9": 3, "C05.R8": 1, "C05.R7": 2, "C05.R1": 8, "C05.R2": 1, "C05.R3": 1, "C05.R4": 5, "C05.R5": 1, "C05.R6": 1}

CHAIN = {
    "Promolecule": "molli.chem.atom:Promolecule",
    "Connectivity": "molli.chem.bond:Connectivity",
    "CartesianGeometry": "molli.chem.geometry:CartesianGeometry",
    "Structure": "molli.chem.structure:Structure",
    "Molecule": "molli.chem.molecule:Molecule",
}
ARRAY_OWNERS = {"CartesianGeometry": "_coords", "Molecule": "_atomic_charges"}
ALLOWED_WRITERS = {
    "_atoms": {"Promolecule", "Substructure"},
    "_bonds": {"Connectivity", "Substructure"},
    "_coords": {"CartesianGeometry", "ConformerEnsemble", "Conformer"},
    "_atomic_charges": {"Molecule", "ConformerEnsemble", "Conformer"},
}
# optional-dependency modules that rebuild objects wholesale; not among the edit operations C05 quantifies over
R3_EXCEPTIONS = {
    "molli/external/rdkit.py:reorder_molecule": "optional RDKit bridge: permutes atoms and bonds of a freshly built molecule wholesale",
    "molli/pipeline/orca.py:ORCADriver.optimize_ens": "optional ORCA driver: assembles a new ensemble sharing the topology of the input",
}


def run(chk):
    prog = chk.prog
    cls = {k: prog.cls(v) for k, v in CHAIN.items()}
    mol = cls["Molecule"]
    mro = [c.name for c in prog.mro(mol)]
    chk.require(mro[:5] == ["Molecule", "Structure", "CartesianGeometry", "Connectivity", "Promolecule"],
                f"MRO of Molecule is {mro}: the cooperative chain changed shape")
    chk.call(r1_del_atom, chk, cls)
    chk.call(r1_add_atom, chk, cls)
    chk.call(r1_append_atom, chk, cls)
    chk.call(r2_none_flow, chk, cls)
    chk.call(r3_who_may_write, chk)
    chk.call(r4_parent, chk, cls)
    chk.call(r5_views, chk)
    chk.call(r6_validate_first, chk, cls)
    chk.call(r7_sibling_resolvers, chk, cls)
    chk.call(r8_membership, chk, cls)
    chk.call(r9_one_shot_arguments, chk)
    # "adding hydrogens" is one of the edits: every hydrogen enters through add_atom (which gives it its coordinate row and charge) and is
    # bonded afterwards - a bond to an atom that is not in the molecule yet adopts it without a row (C16.R2 under this property's name)
    from . import c16

    chk.borrow("C05.R10", c16.r2_pairing, chk, c16.placement_view(prog))


def r9_one_shot_arguments(chk):
    """A parameter declared Iterable / Iterator / Generator may be a generator: it can be walked once.  An editing method that
    walks it twice (`self._bonds.extend(bonds)` and then `for b in bonds: b.parent = self`) does its second step for nothing
    when a generator is passed: the bonds are in the table, parents unset and their atoms never adopted."""
    from ..oneshot import consumptions

    mods = {"molli/chem/atom.py", "molli/chem/bond.py", "molli/chem/geometry.py", "molli/chem/structure.py", "molli/chem/molecule.py"}
    for f in chk.prog.functions():
        if f.module.relpath not in mods:
            continue
        for p, (k, site) in consumptions(f.node).items():
            chk.analysed(f)
            chk.decide(k <= 1, "C05.R9", f"{f.key}:one-shot-argument:{p}", f.where(site) if site is not None else f.where(),
                       f"`{p}` (declared one-shot iterable) is walked {k} time(s)",
                       f"`{p}` is declared a one-shot iterable but {f.qualname} walks it {k} times (second walk here): with a generator argument the second walk sees "
                       f"nothing - elements are inserted without the bookkeeping the second loop does (parent, adopted atoms)")


def _super_calls(fn, name):
    return [c for c in walk_no_nested(fn) if isinstance(c, ast.Call) and isinstance(c.func, ast.Attribute) and c.func.attr == name
            and isinstance(c.func.value, ast.Call) and call_name(c.func.value) == "super"]


def _reaches_super_on_all_normal_paths(fn, name):
    cfg = CFG(fn)
    sup = {n.id for n in cfg.nodes if n.kind == "stmt" and any(c in _super_calls(fn, name) for c in walk_no_nested(n.ast) if isinstance(c, ast.Call))}
    if not sup:
        return False
    return cfg.path([cfg.entry], {cfg.exit}, avoid=sup) is None


def r1_del_atom(chk, cls):
    prog = chk.prog
    for owner in ("Molecule", "Structure", "CartesianGeometry", "Connectivity"):
        ci = cls[owner]
        mem = ci.members.get("del_atom")
        key = f"{ci.module.relpath}:{owner}.del_atom"
        if mem is None or mem.func is None:
            if owner == "Structure":
                chk.ok("C05.R1", f"{key}:override", f"{ci.module.relpath}:{ci.node.lineno}", "no override needed (owns no container)", trivial=True)
                continue
            chk.fail("C05.R1", f"{key}:override", f"{ci.module.relpath}:{ci.node.lineno}",
                     f"{owner} owns a per-atom container but does not override del_atom: deleting an atom leaves its row behind")
            continue
        f = prog.method(ci, "del_atom")
        chk.analysed(f)
        chk.decide(_reaches_super_on_all_normal_paths(f.node, "del_atom"), "C05.R1", f"{key}:calls-super", f.where(),
                   "super().del_atom reached on every normal path",
                   f"{owner}.del_atom does not reach super().del_atom on every path: the classes below it keep the atom")
        p = f.params()[1]
        if owner in ARRAY_OWNERS:
            cont = ARRAY_OWNERS[owner]
            dels = [s for s in walk_no_nested(f.node) if isinstance(s, ast.Assign) and f"self.{cont}" in stored_paths(s)
                    and isinstance(s.value, ast.Call) and (call_name(s.value) or "").endswith("delete")]
            if len(dels) != 1:
                chk.fail("C05.R1", f"{key}:shrinks-{cont}", f.where(), f"{owner}.del_atom does not remove a row from {cont}")
                continue
            d = dels[0].value
            ax = kwarg(d, "axis")
            idx = d.args[1] if len(d.args) > 1 else None
            problems = []
            if norm(d.args[0]) != f"self.{cont}":
                problems.append(f"deletes from {norm(d.args[0])}")
            if not (ax is not None and norm(ax) == "0") and not (len(d.args) > 2 and norm(d.args[2]) == "0"):
                problems.append("not along axis 0")
            if not isinstance(idx, ast.Name):
                problems.append(f"row index `{norm(idx) if idx is not None else None}` is not a local computed beforehand")
            else:
                asg = [s for s in walk_no_nested(f.node) if isinstance(s, ast.Assign) and idx.id in stored_paths(s)]
                sup = _super_calls(f.node, "del_atom")
                ok_src = len(asg) == 1 and isinstance(asg[0].value, ast.Call) and norm(asg[0].value.func) == "self.get_atom_index" and norm(asg[0].value.args[0]) == p
                if not ok_src:
                    problems.append(f"row index is {norm(asg[0].value) if asg else '?'}, not self.get_atom_index({p})")
                elif sup and asg[0].lineno > min(c.lineno for c in sup):
                    problems.append("the row index is computed after super().del_atom removed the atom: a different row (or none) is deleted")
            chk.decide(not problems, "C05.R1", f"{key}:shrinks-{cont}", f.where(dels[0]), f"{cont} loses row get_atom_index({p}), computed before the atom is removed",
                       f"{owner}.del_atom: " + "; ".join(problems))
        if owner == "Connectivity":
            tb = [s for s in walk_no_nested(f.node) if isinstance(s, ast.Assign) and has_call(s.value, {"self.bonds_with_atom"})]
            loops = [s for s in walk_no_nested(f.node) if isinstance(s, ast.For) and has_call(s, {"self.del_bond"})]
            ok = len(tb) == 1 and len(loops) == 1 and norm(tb[0].value) in (f"list(self.bonds_with_atom({p}))", f"tuple(self.bonds_with_atom({p}))") \
                and norm(loops[0].iter) == norm(tb[0].targets[0]) and norm(loops[0].body[0]) == f"self.del_bond({norm(loops[0].target)})"
            sup = _super_calls(f.node, "del_atom")
            ok = ok and sup and loops[0].lineno < sup[0].lineno
            chk.decide(bool(ok), "C05.R1", f"{key}:removes-exactly-its-bonds", f.where(), "deletes list(bonds_with_atom(a)), then the atom",
                       "Connectivity.del_atom does not delete exactly the bonds of the atom (materialised first) before the atom itself")
    # del_bond / bonds_with_atom
    db = prog.method(cls["Connectivity"], "del_bond")
    chk.decide(norm(db.node.body[-1]) == f"self._bonds.remove({db.params()[1]})", "C05.R1", f"{db.key}:removes-that-bond", db.where(), "_bonds.remove(b)",
               "Connectivity.del_bond no longer removes exactly the given bond")
    # the resolved chain as seen from Molecule
    chain = []
    cur = None
    for c in prog.mro(cls["Molecule"]):
        if "del_atom" in c.members and c.members["del_atom"].func is not None:
            chain.append(c.name)
    chk.decide(chain == ["Molecule", "Structure", "CartesianGeometry", "Connectivity", "Promolecule"] or chain == ["Molecule", "CartesianGeometry", "Connectivity", "Promolecule"],
               "C05.R1", "molli.chem:del_atom-chain", f"{cls['Molecule'].module.relpath}:{cls['Molecule'].node.lineno}", " -> ".join(chain),
               f"del_atom chain along Molecule's MRO is {chain}")
    pd = prog.method(cls["Promolecule"], "del_atom")
    ok = any(isinstance(c, ast.Call) and norm(c.func) == "self._atoms.remove" for c in walk_no_nested(pd.node)) or any(isinstance(s, ast.Delete) for s in walk_no_nested(pd.node))
    chk.decide(ok, "C05.R1", f"{pd.key}:removes-atom", pd.where(), "_atoms.remove(atom)", "Promolecule.del_atom no longer removes the atom from _atoms")


def r1_add_atom(chk, cls):
    prog = chk.prog
    for owner, sup_name in (("Molecule", "add_atom"), ("CartesianGeometry", "append_atom")):
        ci = cls[owner]
        cont = ARRAY_OWNERS[owner]
        f = prog.method(ci, "add_atom")
        key = f"{ci.module.relpath}:{owner}.add_atom"
        if f is None or f.cls != ci:
            chk.fail("C05.R1", f"{key}:override", f"{ci.module.relpath}:{ci.node.lineno}", f"{owner} owns {cont} but does not override add_atom")
            continue
        chk.analysed(f)
        chk.decide(_reaches_super_on_all_normal_paths(f.node, sup_name), "C05.R1", f"{key}:calls-super", f.where(), f"super().{sup_name} reached on every normal path",
                   f"{owner}.add_atom does not reach super().{sup_name} on every normal path")
        apps = [s for s in walk_no_nested(f.node) if isinstance(s, ast.Assign) and f"self.{cont}" in stored_paths(s) and isinstance(s.value, ast.Call)
                and (call_name(s.value) or "").split(".")[-1] in ("append", "concatenate", "vstack", "hstack")]
        ok = len(apps) == 1
        detail = ""
        if ok:
            c = apps[0].value
            if (call_name(c) or "").endswith("append"):
                ax = kwarg(c, "axis")
                one_row = len(c.args) >= 2 and isinstance(c.args[1], ast.List) and len(c.args[1].elts) == 1
                ok = norm(c.args[0]) == f"self.{cont}" and ax is not None and norm(ax) == "0" and one_row
                detail = norm(c)
        chk.decide(ok, "C05.R1", f"{key}:grows-{cont}", f.where(apps[0] if apps else None), f"{cont} gains exactly one row (axis 0)",
                   f"{owner}.add_atom does not append exactly one row to {cont} along axis 0 ({detail or 'no append found'})")
    # new_atom goes through add_atom
    na = prog.method(cls["CartesianGeometry"], "new_atom")
    chk.decide(na is not None and has_call(na.node, {"self.add_atom"}), "C05.R1", f"{na.key}:uses-add_atom", na.where(), "new_atom -> self.add_atom",
               "new_atom no longer goes through add_atom (the subclass containers are bypassed)")


def r1_append_atom(chk, cls):
    """append_atom is public on every class and is what append_bond(s) uses to adopt a foreign atom."""
    prog = chk.prog
    for owner, cont in ARRAY_OWNERS.items():
        ci = cls[owner]
        r = prog.lookup(ci, "append_atom")
        own = r is not None and r[0] == ci
        key = f"{ci.module.relpath}:{owner}:append_atom-extends-{cont}"
        if own:
            f = prog.method(ci, "append_atom")
            grows = any(isinstance(s, ast.Assign) and f"self.{cont}" in stored_paths(s) for s in walk_no_nested(f.node)) or has_call(f.node, {"self.add_atom"}) \
                or any(isinstance(s, ast.Raise) for s in walk_no_nested(f.node))
            chk.decide(grows, "C05.R1", key, f.where(), f"{owner}.append_atom keeps {cont} aligned (or refuses)",
                       f"{owner}.append_atom overrides the primitive but does not extend {cont}")
        else:
            chk.fail("C05.R1", key, f"{ci.module.relpath}:{ci.node.lineno}",
                     f"{owner} owns {cont} but inherits Promolecule.append_atom unchanged; Connectivity.append_bond(s) calls it to adopt a bond's foreign atom: "
                     f"mol.append_bond(Bond(mol.atoms[0], Atom('F'))) leaves n_atoms == len({cont}) + 1")


def r2_none_flow(chk, cls):
    prog = chk.prog
    f = prog.method(cls["Molecule"], "add_atom")
    chk.analysed(f)
    a = f.node.args
    defaults = dict(zip([x.arg for x in a.args][-len(a.defaults):], a.defaults)) if a.defaults else {}
    none_params = {k for k, v in defaults.items() if isinstance(v, ast.Constant) and v.value is None}
    apps = [s for s in walk_no_nested(f.node) if isinstance(s, ast.Assign) and "self._atomic_charges" in stored_paths(s)]
    chk.require(len(apps) >= 1, "Molecule.add_atom: charge append not found")
    bad = None
    for s in apps:
        val = s.value.args[1] if isinstance(s.value, ast.Call) and len(s.value.args) > 1 else s.value
        for n in ast.walk(val):
            if isinstance(n, ast.Name) and n.id in none_params:
                # guarded if inside an IfExp testing `is None`, an `or` default, or reassigned under an `is None` test before
                guarded = False
                for g in ast.walk(val):
                    if isinstance(g, ast.IfExp) and n.id in names_in(g.test):
                        guarded = True
                    if isinstance(g, ast.BoolOp) and isinstance(g.op, ast.Or) and n.id in names_in(g.values[0]):
                        guarded = True
                for st in walk_no_nested(f.node):
                    if isinstance(st, ast.If) and n.id in names_in(st.test) and "None" in norm(st.test) and any(n.id in stored_paths(b) for b in st.body) and st.lineno < s.lineno:
                        guarded = True
                if not guarded:
                    bad = (n.id, s)
    key = f"{f.key}:charge-is-a-number"
    if bad:
        chk.fail("C05.R2", key, f.where(bad[1]),
                 f"parameter `{bad[0]}` defaults to None and flows unguarded into the charge array: add_atom(a, xyz) turns _atomic_charges into an object array ending in None")
    else:
        chk.ok("C05.R2", key, f.where(), "the appended charge cannot be None")


def r3_who_may_write(chk):
    prog = chk.prog
    quick_mods = {"molli.chem.atom", "molli.chem.bond", "molli.chem.geometry", "molli.chem.structure", "molli.chem.molecule",
                  "molli.chem.ensemble", "molli.ftypes.cdxml", "molli.chem.io", "molli.chem.library", "molli.chem.legacy"}
    mods = None if chk.tier == "thorough" else quick_mods
    n_sites = 0
    found = False
    for f in prog.functions(mods):
        owner = f.cls.name if f.cls is not None else None
        for s in walk_no_nested(f.node):
            # rebinding / item assignment / deletion of a container through any receiver
            if isinstance(s, (ast.Assign, ast.AugAssign, ast.AnnAssign, ast.Delete)):
                tg = s.targets if isinstance(s, (ast.Assign, ast.Delete)) else [s.target]
                for t in tg:
                    base = t
                    while isinstance(base, ast.Subscript):
                        base = base.value
                    if isinstance(base, ast.Attribute) and base.attr in ALLOWED_WRITERS:
                        recv = norm(base.value)
                        n_sites += 1
                        if recv == "self" and owner in ALLOWED_WRITERS[base.attr]:
                            continue
                        if isinstance(t, ast.Subscript) and base.attr in ("_coords", "_atomic_charges"):
                            continue  # element assignment keeps the shape
                        if recv.endswith("._parent") and owner == "Conformer":
                            continue
                        # a method of a class below the owner fills the bond table of an object it has just built, doing the owner's
                        # bookkeeping itself: every element is made with `parent=<that object>` (evolve / Bond), from one comprehension
                        if base.attr == "_bonds" and isinstance(s, ast.Assign) and isinstance(t, ast.Attribute) and isinstance(s.value, ast.ListComp) \
                                and f.cls is not None and any(c_.name in ALLOWED_WRITERS[base.attr] for c_ in prog.mro(f.cls)):
                            e_ = s.value.elt
                            pk = [k.value for k in e_.keywords if k.arg == "parent"] if isinstance(e_, ast.Call) else []
                            if pk and norm(pk[0]) == recv and (norm(e_.func).endswith(".evolve") or norm(e_.func) == "Bond"):
                                continue
                        _r3_report(chk, f, s, f"{recv}.{base.attr}", f"`{short(s, 60)}` rebinds {base.attr} outside its owner class")
                        found = True
            if isinstance(s, ast.Call) and isinstance(s.func, ast.Attribute) and s.func.attr in MUTATORS and isinstance(s.func.value, ast.Attribute):
                attr = s.func.value.attr
                recv = norm(s.func.value.value)
                if attr in ("atoms", "bonds"):
                    n_sites += 1
                    _r3_report(chk, f, s, f"{recv}.{attr}.{s.func.attr}",
                               f"`{short(s, 60)}` mutates the live list handed out by the .{attr} property: the bookkeeping of the owner (parent link, coordinates, charges) is bypassed")
                    found = True
                elif attr in ("_atoms", "_bonds"):
                    n_sites += 1
                    if recv == "self" and owner in ALLOWED_WRITERS[attr]:
                        continue
                    _r3_report(chk, f, s, f"{recv}.{attr}.{s.func.attr}", f"`{short(s, 60)}` mutates {attr} outside its owner class")
                    found = True
    chk.require(n_sites >= 10, f"only {n_sites} container write sites seen - the scan is not seeing the code")
    if not found:
        chk.ok("C05.R3", "molli:containers-written-only-by-owner", "molli/chem", f"{n_sites} container write sites, all inside the owning class")
    else:
        chk.ok("C05.R3", "molli:container-write-sites-scanned", "molli/chem", f"{n_sites} container write sites scanned", trivial=True)


def _r3_report(chk, f, node, tag, what):
    if f.key in R3_EXCEPTIONS:
        chk.note(f"C05.R3 {f.key}: {what} - excepted (one named function): {R3_EXCEPTIONS[f.key]}")
        return
    chk.fail("C05.R3", f"{f.key}:{tag}", f.where(node), what)


def r4_parent(chk, cls):
    prog = chk.prog
    # every insertion into _atoms/_bonds in the owner classes sets the parent in the same method
    for owner, cont in (("Promolecule", "_atoms"), ("Connectivity", "_bonds")):
        ci = cls[owner]
        for name, mem in ci.members.items():
            for node in (mem.func, mem.setter):
                if node is None:
                    continue
                for s in walk_no_nested(node):
                    ins = None
                    if isinstance(s, ast.Call) and isinstance(s.func, ast.Attribute) and norm(s.func.value) == f"self.{cont}" and s.func.attr in ("append", "extend", "insert"):
                        ins = s
                        what = s.args[-1]
                    elif isinstance(s, ast.Assign) and f"self.{cont}" in stored_paths(s):
                        ins = s
                        what = s.value
                    if ins is None:
                        continue
                    key = f"{ci.module.relpath}:{owner}.{name}:parent-set:{short(ins, 40)}"
                    src = norm(node)
                    ok = False
                    cond_stores = []
                    if isinstance(what, (ast.Call, ast.ListComp, ast.GeneratorExp, ast.List)):
                        w = norm(what)
                        if "parent=self" in w or w in ("list()", "[]"):
                            ok = True
                    if isinstance(what, ast.Name) or not ok:
                        nm = what.id if isinstance(what, ast.Name) else None
                        # `x.parent = self` for the element, or a loop over the inserted collection doing so
                        for t in walk_no_nested(node):
                            if isinstance(t, ast.Assign) and norm(t.value) == "self" and isinstance(t.targets[0], ast.Attribute) and t.targets[0].attr == "parent":
                                recv = norm(t.targets[0].value)
                                if nm is None or recv == nm:
                                    ok = True
                                    if nm is not None and recv == nm:
                                        cond_stores.append(t)
                                else:
                                    for lp in walk_no_nested(node):
                                        if isinstance(lp, ast.For) and norm(lp.target) == recv and (norm(lp.iter) == nm or norm(lp.iter) == f"self.{cont}"):
                                            ok = True
                    if ok and cond_stores:
                        # ... on every normal way through the method: a store that is skipped when the element already has a parent
                        # (`if bond.parent is None:`) leaves an element that came from another molecule (evolve() keeps the parent) with
                        # that molecule as its parent
                        from ..cfg import CFG as _CFG
                        cfg = _CFG(node)
                        sn = {nd.id for nd in cfg.nodes if nd.kind == "stmt" and any(nd.ast is t_ for t_ in cond_stores)}
                        insn = [nd.id for nd in cfg.nodes if nd.kind == "stmt" and any(x is ins for x in ast.walk(nd.ast))]
                        flow = lambda a, b, lab: lab not in ("exc", "raise", "except")
                        if insn and cfg.path([cfg.entry], set(insn), avoid=sn, edge_ok=flow) is not None and cfg.path(insn, {cfg.exit}, avoid=sn, edge_ok=flow) is not None:
                            chk.fail("C05.R4", key, f"{ci.module.relpath}:{cond_stores[0].lineno}", f"{owner}.{name} inserts `{nm}` into {cont}, but `{short(cond_stores[0], 40)}` does not run on every way "
                                     "through the method: an element that already carries a parent (a bond made by evolve() from another molecule's bond) keeps the other molecule as its parent")
                            continue
                    chk.decide(ok, "C05.R4", key, f"{ci.module.relpath}:{ins.lineno}", "inserted element(s) get parent = self",
                               f"{owner}.{name} inserts into {cont} without setting the element's parent: the element reports no (or another) molecule and a wrong index")


def r5_views(chk):
    prog = chk.prog
    sub = prog.cls("molli.chem.structure:Substructure")
    mem = sub.members.get("coords")
    chk.require(mem is not None and mem.getter is not None and mem.setter is not None, "Substructure.coords getter/setter vanished")
    g = [s for s in ast.walk(mem.getter) if isinstance(s, ast.Subscript)]
    st = [s for s in ast.walk(mem.setter) if isinstance(s, ast.Subscript) and isinstance(s.ctx, ast.Store)]
    ok = len(g) >= 1 and len(st) == 1 and norm(g[0]) == norm(st[0]) and norm(st[0].value) == "self._parent.coords"
    chk.decide(ok, "C05.R5", "molli/chem/structure.py:Substructure.coords:getter-setter-same-index", f"{sub.module.relpath}:{mem.getter.lineno}",
               f"both index {norm(st[0]) if st else '?'}", "Substructure.coords getter and setter index the parent differently: a substructure edit moves other atoms than it shows")
    pai = sub.members.get("parent_atom_indices")
    chk.require(pai is not None and pai.getter is not None, "Substructure.parent_atom_indices vanished")
    ok = "self._atoms" in norm(pai.getter) and "yield_parent_atom_indices" in norm(pai.getter)
    # ... in the order of the substructure's own atom list: row k of the view is atom k of the view.  A re-ordering wrapper
    # (sorted / set / reversed) pairs the rows with other atoms than `atoms` lists (alignment with a mapping that is not ascending)
    reorder = [c for c in ast.walk(pai.getter) if isinstance(c, ast.Call) and (call_name(c) or "").split(".")[-1] in ("sorted", "set", "frozenset", "reversed", "unique", "sort")]
    chk.decide(not reorder, "C05.R5", "molli/chem/structure.py:Substructure.parent_atom_indices:in-atom-order", f"{sub.module.relpath}:{pai.getter.lineno}",
               "the indices keep the order of the substructure's atoms",
               f"parent_atom_indices re-orders the indices (`{short(reorder[0], 40) if reorder else ''}`): coordinate row k of the view no longer belongs to atom k of the view - an alignment "
               "to reference coordinates listed in another order pairs the wrong atoms, and the RMSD reported is not the one achieved")
    chk.decide(ok, "C05.R5", "molli/chem/structure.py:Substructure.parent_atom_indices", f"{sub.module.relpath}:{pai.getter.lineno}",
               "indices of the substructure's own atoms in the parent", "parent_atom_indices is no longer computed from the substructure's own atoms")
    # nothing derived from the (mutable) atom lists may be memoised on the object: a cached index list goes stale with the next
    # add_atom / del_atom on the parent, and the view then reads and writes other atoms' rows
    MEMO = ("cached_property", "functools.cached_property", "cache", "functools.cache", "lru_cache", "functools.lru_cache")
    n_members = 0
    for ci in [prog.cls("molli.chem.atom:Promolecule")] + prog.subclasses(prog.cls("molli.chem.atom:Promolecule")):
        for nm, mem in ci.members.items():
            node = mem.getter_raw or mem.func_raw
            if node is None:
                continue
            n_members += 1
            memo = [d for d in mem.decorators if d.split("(")[0] in MEMO]
            reads_self = any(isinstance(x, ast.Attribute) and isinstance(x.value, ast.Name) and x.value.id == "self" for x in ast.walk(node))
            if memo and reads_self:
                chk.fail("C05.R5", f"{ci.module.relpath}:{ci.name}.{nm}:not-memoised", f"{ci.module.relpath}:{node.lineno}",
                         f"{ci.name}.{nm} is decorated `@{memo[0]}` but is computed from the object's mutable state: after the first use it keeps returning the "
                         "value of that moment - atom indices shift with every add_atom / del_atom, so a view built on the stale value addresses other atoms")
    chk.ok("C05.R5", "molli.chem:Promolecule-hierarchy:derived-values-not-memoised", f"{sub.module.relpath}:{sub.node.lineno}", f"{n_members} methods / properties of the molecule classes inspected; none is memoised")


def r6_validate_first(chk, cls):
    prog = chk.prog
    f = prog.method(cls["CartesianGeometry"], "add_atom")
    cfg = CFG(f.node)
    muts = {n.id for n in cfg.nodes if n.kind == "stmt" and (has_call(n.ast, {".append_atom", "self._atoms.append"}) or "self._coords" in stored_paths(n.ast))}
    raises = {n.id for n in cfg.nodes if n.kind == "stmt" and isinstance(n.ast, ast.Raise)}
    late = []
    for m in muts:
        r = cfg.reachable([m], labels={"next", "true", "false"})
        late += [cfg.nodes[x] for x in r & raises]
    key = f"{f.key}:validation-before-mutation"
    if late:
        chk.fail("C05.R6", key, f.where(late[0].ast),
                 f"`{short(late[0].ast, 60)}` can run after the atom was already appended: add_atom with a mis-shaped coordinate raises and leaves one atom without a coordinate row")
    else:
        chk.ok("C05.R6", key, f.where(), f"{len(raises)} validation raise(s), all before the first mutation")
    # what is validated: one coordinate is a vector of shape (3,) - that is what `np.append(self._coords, [coord], axis=0)` needs; a test
    # of the size alone lets (1, 3) / (3, 1) through, the atom is registered and the append raises afterwards
    guards = [g for g in walk_no_nested(f.node) if isinstance(g, ast.If) and any(isinstance(x, ast.Raise) for x in g.body) and ("shape" in norm(g.test) or "size" in norm(g.test) or "len(" in norm(g.test))]
    def _pins_shape(t):
        return any(isinstance(c_, ast.Compare) and ".shape" in norm(c_) and any(norm(x) in ("(3,)", "3,") or (isinstance(x, ast.Tuple) and len(x.elts) == 1 and norm(x.elts[0]) == "3")
                                                                                 for x in [c_.left] + c_.comparators) for c_ in ast.walk(t))

    pins = [g for g in guards if _pins_shape(g.test)]
    if not pins:
        # the same test with the raise behind it (`if shape == (3,): return` ... `raise`): read from the conditions under which a raise runs
        from ..canon import path_conditions as _pcs

        for r_ in [x for x in walk_no_nested(f.node) if isinstance(x, ast.Raise)]:
            if any(_pins_shape(t) for t in _pcs(f.node, r_)):
                pins.append(r_)
    chk.decide(bool(pins), "C05.R6", f"{f.key}:coordinate-shape-is-pinned", f.where(guards[0] if guards else None), "a coordinate is accepted only with shape (3,)",
               f"add_atom validates the coordinate by `{short(guards[0].test, 40) if guards else 'nothing'}`, which does not pin its shape to (3,): a (1,3) or (3,1) array passes, the atom is "
               "registered and the coordinate append raises - one atom more than coordinate rows")
    # every override above it: its own container may only grow after the (fallible) super().add_atom returned
    for owner, cont in ARRAY_OWNERS.items():
        ci = cls[owner]
        g = prog.method(ci, "add_atom")
        if g is None or g.cls != ci or owner == "CartesianGeometry":
            continue
        cfg = CFG(g.node)
        own = [n for n in cfg.nodes if n.kind == "stmt" and f"self.{cont}" in stored_paths(n.ast)]
        sup = {n.id for n in cfg.nodes if n.kind == "stmt" and any(c in _super_calls(g.node, "add_atom") for c in walk_no_nested(n.ast) if isinstance(c, ast.Call))}
        early = [n for n in own if cfg.reachable([n.id], labels={"next", "true", "false"}) & sup]
        chk.decide(not early, "C05.R6", f"{g.key}:own-container-grows-after-super", g.where(early[0].ast if early else None),
                   f"{cont} grows only after super().add_atom accepted the atom",
                   f"`{short(early[0].ast, 60) if early else ''}` runs before super().add_atom, which rejects mis-shaped coordinates: after the ValueError {cont} has one entry more than there are atoms")


def r8_adoption(chk, cls):
    """append_bond / append_bonds adopt an endpoint exactly when it is not in the atom list: `a.parent is not self` is no substitute - a
    deleted atom keeps its parent pointer (it would stay outside the molecule with a bond to it), and a view re-parents what it shows"""
    prog = chk.prog
    conn = cls["Connectivity"]
    n = 0
    for nm in ("append_bond", "append_bonds", "extend_bonds"):
        f = prog.method(conn, nm)
        if f is None:
            continue
        adopts = [c for c in walk_no_nested(f.node) if isinstance(c, ast.Call) and norm(c.func) == "self.append_atom" and c.args]
        for c in adopts:
            n += 1
            from ..canon import path_conditions
            from ..util import innermost_stmt

            a = norm(c.args[0])
            pcs = [norm(t) for t in path_conditions(f.node, innermost_stmt(f.node, c))]
            ok = any(t in (f"{a} not in self.atoms", f"{a} not in self._atoms") for t in pcs)
            chk.decide(ok, "C05.R8", f"{f.key}:adopts-iff-not-in-atom-list:{a}", f.where(c), f"append_atom({a}) under `{a} not in self.atoms`",
                       f"{nm} adopts `{a}` under {pcs or 'no condition'} instead of `{a} not in self.atoms`: an endpoint that was deleted from this molecule (its parent pointer survives) is not "
                       "taken back - the bond joins an atom outside the molecule")
    chk.require(n >= 2, "Connectivity.append_bond(s): adoption sites not found")


def r8_membership(chk, cls):
    """get_atom(Atom) must test membership in the atom list itself (a deleted atom keeps its parent pointer)"""
    chk.call(r8_adoption, chk, cls)
    prog = chk.prog
    ga = prog.method(cls["Promolecule"], "get_atom")
    arms = [(n, c) for n, c in _type_cases(prog, ga) if n == "Atom"]
    chk.require(len(arms) == 1, "get_atom: `case Atom()` not found")
    c = arms[0][1]
    p = ga.params()[1]
    # every `return <the atom>` of the arm runs under the condition `<the atom> in self.atoms` - as an if test, or as the negation of a
    # guard clause that raises (path conditions); any weaker condition (an `or` with the parent pointer) is not that conjunct
    from ..canon import path_conditions

    import types as _types
    holder = ga.node if not isinstance(c, _types.SimpleNamespace) else ast.Module(body=list(c.body), type_ignores=[])
    rets_ = [r for b in c.body for r in ast.walk(b) if isinstance(r, ast.Return) and r.value is not None and norm(r.value) == p]
    member = (f"{p} in self.atoms", f"{p} in self._atoms")
    bad = None
    for r in rets_:
        conds = [norm(x) for x in path_conditions(holder, r)]
        if not any(x in member for x in conds):
            bad = (r, [x for x in conds if p in x and "isinstance" not in x])
            break
    ok = bool(rets_) and bad is None
    chk.decide(ok, "C05.R8", f"{ga.key}:atom-must-be-in-the-atom-list", ga.where(c.pattern), f"returns the atom only if `{p} in self.atoms`",
               f"get_atom accepts an Atom under `{(' and '.join(bad[1]) or 'no test') if bad else 'no test'}`: an atom that was deleted (its parent pointer is not cleared) is accepted again, "
               "connect() then re-adopts it through append_atom without a coordinate row or a charge")


EXCLUDED = set()   # (captor, left out): `isinstance(p, int) and not isinstance(p, Element)` - filled by _type_cases, read by R7


def _type_cases(prog, f):
    """ordered class names of the `case K():` arms of the match on the first parameter"""
    p = f.params()[1]
    ms = [m for m in walk_no_nested(f.node) if isinstance(m, ast.Match) and norm(m.subject) == p]
    if not ms:
        # guard form: `if isinstance(p, K): ... return / raise` (one or several), then one closing `return E` for everything else
        import types

        from ..canon import _ends

        out = []
        body = [s for s in f.node.body if not (isinstance(s, ast.Expr) and isinstance(s.value, ast.Constant))]
        for s in body:
            t = s.test if isinstance(s, ast.If) else None
            # `isinstance(p, int) and not isinstance(p, Element)`: the int case that leaves the IntEnum to a later arm
            if t is not None and isinstance(t, ast.BoolOp) and isinstance(t.op, ast.And) and len(t.values) == 2 and isinstance(t.values[0], ast.Call) \
                    and call_name(t.values[0]) == "isinstance" and isinstance(t.values[1], ast.UnaryOp) and isinstance(t.values[1].op, ast.Not) \
                    and isinstance(t.values[1].operand, ast.Call) and call_name(t.values[1].operand) == "isinstance" \
                    and norm(t.values[1].operand.args[0]) == p and norm(t.values[0].args[0]) == p:
                EXCLUDED.add((norm(t.values[0].args[1]), norm(t.values[1].operand.args[1])))
                t = t.values[0]
            if t is not None and isinstance(t, ast.Call) and call_name(t) == "isinstance" and len(t.args) == 2 and norm(t.args[0]) == p and not s.orelse and _ends(s.body, (ast.Return, ast.Raise)):
                ks = t.args[1].elts if isinstance(t.args[1], ast.Tuple) else [t.args[1]]
                for k in ks:
                    out.append((norm(k), types.SimpleNamespace(body=s.body, pattern=None)))
            elif isinstance(s, ast.Return) and s is body[-1] and out:
                out.append(("*", types.SimpleNamespace(body=[s], pattern=None)))
            else:
                raise AnalysisError(f"{f.key}: expected one `match {p}` or a run of isinstance guards closed by one return")
        return out
    if len(ms) != 1:
        raise AnalysisError(f"{f.key}: expected one `match {p}`")
    out = []
    for c in ms[0].cases:
        pt = c.pattern
        if isinstance(pt, ast.MatchAs) and pt.pattern is not None:
            pt = pt.pattern
        if isinstance(pt, ast.MatchAs) and pt.pattern is None and c.guard is None:
            # `case _:` - an arm that only raises rejects, an arm that returns resolves "everything else"
            if not (len(c.body) == 1 and isinstance(c.body[0], ast.Raise)):
                out.append(("*", c))
        elif isinstance(pt, ast.MatchClass):
            out.append((norm(pt.cls), c))
        elif isinstance(pt, ast.MatchOr):
            for q in pt.patterns:
                if isinstance(q, ast.MatchClass):
                    out.append((norm(q.cls), c))
    return out


def r7_sibling_resolvers(chk, cls):
    prog = chk.prog
    pm = cls["Promolecule"]
    ga = prog.method(pm, "get_atom")
    gi = prog.method(pm, "get_atom_index")
    chk.require(ga is not None and gi is not None, "Promolecule.get_atom / get_atom_index vanished")
    chk.analysed(ga, gi)
    EXCLUDED.clear()
    ca, ci_ = _type_cases(prog, ga), _type_cases(prog, gi)
    # builtin supertypes of the repo's enum classes (Element(IntEnum) is an int)
    supers = {}
    for name in {n for n, _ in ca + ci_}:
        r = prog.resolve_name(pm.module, name)
        if hasattr(r, "base_names"):
            b = set(r.base_names)
            if b & {"IntEnum", "int", "enum.IntEnum", "IntFlag"}:
                supers[name] = "int"
            if b & {"str", "StrEnum"}:
                supers[name] = "str"
    for f, cases in ((ga, ca), (gi, ci_)):
        names = [n for n, _ in cases]
        shadowed = [n for i, n in enumerate(names) if supers.get(n) in names[:i]]
        chk.decide(not shadowed, "C05.R7", f"{f.key}:no-shadowed-type-case", f.where(), f"cases {names}",
                   f"`case {shadowed[0] if shadowed else ''}()` comes after `case {supers.get(shadowed[0]) if shadowed else ''}()`, which already captures it: the later arm is dead")
    sa, si = [n for n, _ in ca], [n for n, _ in ci_]
    # a closing arm that returns the index of `get_atom(<the designator>)` resolves everything not taken before it exactly as
    # get_atom does - but only what reaches it: an earlier `int` guard still takes an Element (IntEnum) as a row number
    delegates = False
    if "*" in si:
        p_ = gi.params()[1]
        b_ = dict(ci_)["*"].body
        chk.require(len(b_) == 1 and isinstance(b_[0], ast.Return) and b_[0].value is not None, f"{gi.key}: the closing arm is not a single return")
        rv = b_[0].value
        delegates = isinstance(rv, ast.Call) and norm(rv.func) in ("self._atoms.index", "self.atoms.index") and len(rv.args) == 1 \
            and isinstance(rv.args[0], ast.Call) and norm(rv.args[0].func) == "self.get_atom" and [norm(a) for a in rv.args[0].args] == [p_]
        chk.require(delegates, f"{gi.key}: the closing return `{short(rv, 50)}` is not the index of get_atom({p_})")
        si = si[: si.index("*")]
    missing = [n for n in sa if n not in si]
    captured = [n for n in missing if supers.get(n) in si and (supers.get(n), n) not in EXCLUDED]
    if delegates and not captured:
        missing = []
    key = f"{gi.key}:same-type-cases-as-get_atom"
    if captured:
        n = captured[0]
        chk.fail("C05.R7", key, gi.where(),
                 f"get_atom resolves `{n}` (first atom of that element) but get_atom_index has no `case {n}()`; {n} is an {supers[n]} subclass, so `case {supers[n]}()` takes it as a "
                 f"row index: mol.del_atom(Element.O) removes the first oxygen but deletes coordinate/charge row 8")
    else:
        chk.decide(not missing, "C05.R7", key, gi.where(), f"get_atom {sa} / get_atom_index {si}",
                   f"get_atom accepts {sa} but get_atom_index only {si}: the same AtomLike resolves to an atom in one and fails (or means something else) in the other")
    # where a designator can name several atoms (an element, a label) both resolvers must pick the same one: del_atom removes the
    # atom found by get_atom and the coordinate / charge row found by get_atom_index
    from ..canon import Env

    def arm_value(f, arm):
        rets = [r for st in arm.body for r in ([st] if isinstance(st, ast.Return) else [x for x in walk_no_nested(st) if isinstance(x, ast.Return)]) if r.value is not None]
        if not rets and len(arm.body) == 1 and isinstance(arm.body[0], ast.Assign) and len(arm.body[0].targets) == 1 and isinstance(arm.body[0].targets[0], ast.Name):
            # the arm names what it found and the function returns after the dispatch (`found = ...` / `return self._atoms.index(found)`): the
            # arm's value is that closing return with the arm's expression in place of the name
            nm_ = arm.body[0].targets[0].id
            tail = [st for st in f.node.body if isinstance(st, ast.Return) and st.value is not None]
            if len(tail) == 1 and f.node.body[-1] is tail[0] and nm_ in names_in(tail[0].value):
                import copy as _copy

                class _Sub(ast.NodeTransformer):
                    def visit_Name(self, n):
                        return _copy.deepcopy(arm.body[0].value) if n.id == nm_ and isinstance(n.ctx, ast.Load) else n
                val = _Sub().visit(_copy.deepcopy(tail[0].value))
                return Env(f.node).expand(val, keep=set(f.params()), at=arm.body[0]), tail[0]
        if len(rets) != 1:
            return None, None
        return Env(f.node).expand(rets[0].value, keep=set(f.params()), at=rets[0]), rets[0]

    da, di = dict(ca), dict(ci_)
    for K in ("Element", "str"):
        if K not in da or K not in di:
            continue
        ea, _ = arm_value(ga, da[K])
        ei, ri = arm_value(gi, di[K])
        chk.require(ea is not None and ei is not None, f"get_atom / get_atom_index: the `{K}` arm does not end in one return")
        key = f"{gi.key}:{K}:same-atom-as-get_atom"
        first = isinstance(ei, ast.Call) and norm(ei.func) in ("self._atoms.index", "self.atoms.index") and len(ei.args) == 1
        if first:
            chk.decide(norm(ei.args[0]) == norm(ea), "C05.R7", key, gi.where(ri), f"index of `{short(ea, 50)}`",
                       f"get_atom({K}) picks `{short(ea, 50)}` but get_atom_index({K}) the index of `{short(ei.args[0], 50)}`: "
                       "del_atom removes one atom and the coordinate / charge row of another")
            continue
        # a lookup in a mapping built over all atoms keeps the LAST atom of a repeated key; next(...) / .index(...) take the first
        table = ei.value if isinstance(ei, ast.Subscript) else (ei.func.value if isinstance(ei, ast.Call) and isinstance(ei.func, ast.Attribute) and ei.func.attr == "get" else None)
        if isinstance(table, ast.DictComp) or (isinstance(table, ast.Call) and call_name(table) == "dict"):
            takes_first = isinstance(ea, ast.Call) and call_name(ea) == "next"
            # filled from the atoms walked backwards, the table keeps the FIRST atom of a repeated key
            src_it = table.generators[0].iter if isinstance(table, ast.DictComp) and len(table.generators) == 1 else None
            backwards = src_it is not None and ((isinstance(src_it, ast.Call) and call_name(src_it) == "reversed") or
                                                (isinstance(src_it, ast.Subscript) and norm(src_it.slice) == "::-1"))
            if backwards and "self._atoms" in norm(src_it) and takes_first:
                chk.ok("C05.R7", key, gi.where(ri), f"table filled from the atoms walked backwards: the first atom of a repeated key wins, as in `{short(ea, 40)}`")
                continue
            chk.decide(not takes_first, "C05.R7", key, gi.where(ri), "",
                       f"get_atom({K}) takes the first atom that matches (`{short(ea, 40)}`), get_atom_index({K}) looks the designator up in `{short(table, 50)}`, "
                       "which keeps the last atom of a repeated key: with two atoms of one label / element del_atom removes the first atom and the coordinate / charge row of the last")
            continue
        raise AnalysisError(f"{gi.key}: the `{K}` arm returns `{short(ei, 50)}` - cannot tell which of several matching atoms it picks")
    # every del_atom override that computes a row index does so from the same argument that get_atom resolves - covered by R1


def r7_designators_are_atomlike(chk, cls, rule="C11.R8"):
    """`AtomLike` is the package's test for "this argument designates an atom" (`isinstance(a2, AtomLike)` in CartesianGeometry.vector
    decides between an atom and a point).  The resolvers get_atom / get_atom_index are its siblings: every type they resolve must
    be a member of that union (evaluated for C11 only: a resolver that takes more types keeps atoms and rows aligned), or code that asks `isinstance(x, AtomLike)` first takes a designator the resolvers accept (a numpy
    integer) for something else - `vector(a1, np.int64(3))` is then the vector to the *point* 3, and rotate_dihedral turns about it."""
    prog = chk.prog
    pm = cls["Promolecule"]
    mod = pm.module
    alias = [t for t in mod.tree.body if isinstance(t, ast.Assign) and len(t.targets) == 1 and isinstance(t.targets[0], ast.Name) and t.targets[0].id == "AtomLike"]
    chk.require(len(alias) == 1, "AtomLike alias vanished from molli/chem/atom.py")
    members = set()

    def union(e):
        if isinstance(e, ast.BinOp) and isinstance(e.op, ast.BitOr):
            union(e.left)
            union(e.right)
        elif isinstance(e, ast.Subscript) and norm(e.value) in ("Union", "typing.Union"):
            for x in (e.slice.elts if isinstance(e.slice, ast.Tuple) else [e.slice]):
                union(x)
        else:
            members.add(norm(e))
    union(alias[0].value)
    for meth in ("get_atom", "get_atom_index"):
        f = prog.method(pm, meth)
        chk.require(f is not None, f"Promolecule.{meth} vanished")
        raw = getattr(f, "raw", None) or f.node
        pats = set()
        for m in ast.walk(raw):
            if isinstance(m, ast.MatchClass):
                pats.add(norm(m.cls))
            if isinstance(m, ast.Call) and norm(m.func) == "isinstance" and len(m.args) == 2:
                for x in (m.args[1].elts if isinstance(m.args[1], ast.Tuple) else [m.args[1]]):
                    if isinstance(x, ast.BinOp):
                        tmp = set()
                        def u2(e):
                            if isinstance(e, ast.BinOp):
                                u2(e.left); u2(e.right)
                            else:
                                tmp.add(norm(e))
                        u2(x)
                        pats |= tmp
                    else:
                        pats.add(norm(x))
        pats.discard("AtomLike")
        extra = sorted(p_ for p_ in pats if p_ not in members)
        chk.decide(not extra, rule, f"{f.key}:designator-types-are-AtomLike", f.where(), f"resolves {sorted(pats)}, all members of AtomLike = {sorted(members)}",
                   f"{f.qualname} resolves {extra}, which AtomLike ({' | '.join(sorted(members))}) does not list: `isinstance(x, AtomLike)` in CartesianGeometry.vector takes such a "
                   "designator for a point - rotate_dihedral / distance with a numpy-integer index use the coordinates (i, i, i) instead of atom i")


def view_keeps_caller_order(chk, rule):
    """Evaluated for the properties that pair rows of a view with something outside it (C11 alignment, C13 stereo displacement); a view
    that lists its atoms in another order is still consistent in itself, so this is no clause of C05."""
    prog = chk.prog
    sub = prog.cls("molli.chem.structure:Substructure")
    # the view lists its atoms in the order the caller named them: alignment pairs row k of a view with row k of a reference, and the
    # drawing code addresses the two ends of a bond as rows 0 and 1 of `substructure((a1, a2))`.  A constructor that "normalises" the
    # selection (sorted, set, parent order) pairs other atoms.
    REORDER = ("sorted", "set", "frozenset", "reversed", "unique", "sort", "fromkeys")
    st_cls = prog.cls("molli.chem.structure:Structure")
    sm = prog.method(st_cls, "substructure")
    init = prog.method(sub, "__init__")
    chk.require(sm is not None and init is not None and init.cls == sub, "Structure.substructure / Substructure.__init__ vanished")
    chk.analysed(sm, init)
    ctor = [c for c in ast.walk(sm.node) if isinstance(c, ast.Call) and call_name(c) == "Substructure"]
    chk.require(len(ctor) >= 1 and len(ctor[0].args) >= 2, "Structure.substructure does not build a Substructure(self, atoms)")
    from ..canon import Env as _Env

    sel = _Env(sm.node).expand(ctor[0].args[1])
    ro = [c for c in ast.walk(sel) if isinstance(c, ast.Call) and (call_name(c) or "").split(".")[-1] in REORDER]
    ro += [c for c in ast.walk(sel) if isinstance(c, (ast.Set, ast.SetComp))]
    chk.decide(not ro and sm.params()[1] in names_in(sel), rule, "molli/chem/structure.py:Structure.substructure:in-caller-order", sm.where(ctor[0]),
               f"Substructure(self, {short(sel, 30)}): the selection as the caller ordered it",
               f"Structure.substructure hands `{short(sel, 50)}` to the view: the caller's order of the atoms is lost (`{short(ro[0], 30) if ro else ''}`) - an alignment whose mapping is "
               "not ascending pairs the core with the wrong reference atoms, and substructure((a1, a2)) no longer has a1 in row 0")
    p_atoms = init.params()[2] if len(init.params()) > 2 else None
    asg = [t for t in walk_no_nested(init.node) if isinstance(t, ast.Assign) and any(norm(x) == "self._atoms" for x in t.targets)]
    chk.require(p_atoms is not None and len(asg) >= 1, "Substructure.__init__: no assignment to self._atoms")
    val = _Env(init.node).expand(asg[-1].value)
    outer = None
    v_ = val
    while isinstance(v_, ast.Call) and (call_name(v_) or "") in ("list", "tuple") and v_.args:
        v_ = v_.args[0]
    if isinstance(v_, (ast.ListComp, ast.GeneratorExp)):
        outer = v_.generators[0].iter
    elif isinstance(v_, ast.Call) and (call_name(v_) or "") == "map" and len(v_.args) == 2:
        outer = v_.args[1]
    while isinstance(outer, ast.Call) and (call_name(outer) or "") in ("list", "tuple", "iter") and outer.args:
        outer = outer.args[0]
    key = "molli/chem/structure.py:Substructure.__init__:in-caller-order"
    if outer is None:
        chk.note(f"C05.R5: Substructure.__init__ fills _atoms by `{short(val, 50)}`, a form whose order is not classified; no verdict")
        chk.ok(rule, key, init.where(asg[-1]), "not classified (noted)")
    else:
        chk.decide(isinstance(outer, ast.Name) and outer.id == p_atoms, rule, key, init.where(asg[-1]), f"_atoms follows the `{p_atoms}` argument item by item",
                   f"Substructure.__init__ fills _atoms by walking `{short(outer, 40)}`, not the `{p_atoms}` argument: the atoms come out in another order than the caller gave "
                   "(parent order instead of selection order) - rows of the view's coordinates are paired with other atoms than the caller addressed")
