"""
String-building normal form: `TEMPLATE.format(a, b, k=v)` and `"%-5s %10.4f" % (a, b)`
become the equivalent f-string node (ast.JoinedStr), so that rules reading the written
text column by column see one shape whatever spelling the source uses.

Only rewritten when the template is a string literal, or a name bound exactly once in
the function / at module level to a string literal, and every field can be matched to
an argument.  Anything else is left as written (the rule may then refuse).
"""
from __future__ import annotations

import ast
import copy
import re
from string import Formatter


class _Fail(Exception):
    pass


def _field_expr(field: str, args, kwargs, counter):
    m = re.match(r"^([^.\[]*)(.*)$", field)
    first, rest = m.group(1), m.group(2)
    if first == "":
        i = counter[0]
        counter[0] += 1
        if i >= len(args):
            raise _Fail
        base = args[i]
    elif first.isdigit():
        if int(first) >= len(args):
            raise _Fail
        base = args[int(first)]
    else:
        if first not in kwargs:
            raise _Fail
        base = kwargs[first]
    base = copy.deepcopy(base)
    while rest:
        m = re.match(r"^\.([A-Za-z_]\w*)(.*)$", rest)
        if m:
            base = ast.Attribute(base, m.group(1), ast.Load())
            rest = m.group(2)
            continue
        m = re.match(r"^\[([^\]]+)\](.*)$", rest)
        if m:
            k = m.group(1)
            key = ast.Constant(int(k)) if k.isdigit() else ast.Constant(k)
            base = ast.Subscript(base, key, ast.Load())
            rest = m.group(2)
            continue
        raise _Fail
    return base


def _joined(tmpl: str, args, kwargs, counter) -> ast.JoinedStr:
    values = []
    try:
        parsed = list(Formatter().parse(tmpl))
    except ValueError:
        raise _Fail
    for lit, field, spec, conv in parsed:
        if lit:
            values.append(ast.Constant(lit))
        if field is None:
            continue
        val = _field_expr(field, args, kwargs, counter)
        spec_js = _joined(spec, args, kwargs, counter) if spec else None
        values.append(ast.FormattedValue(val, ord(conv) if conv else -1, spec_js))
    return ast.JoinedStr(values)


_PCT = re.compile(r"%(?:\((\w+)\))?([#0\- +]*)(\*|\d+)?(?:\.(\*|\d+))?[hlL]?([diouxXeEfFgGcrsa%])")


def _percent(tmpl: str, right: ast.AST) -> ast.JoinedStr:
    if isinstance(right, ast.Tuple):
        args = list(right.elts)
    else:
        args = [right]
    values, pos, i = [], 0, 0
    for m in _PCT.finditer(tmpl):
        if m.start() > pos:
            values.append(ast.Constant(tmpl[pos : m.start()]))
        pos = m.end()
        key, flags, width, prec, conv = m.groups()
        if conv == "%":
            values.append(ast.Constant("%"))
            continue
        if key or width == "*" or prec == "*" or "#" in flags or " " in flags:
            raise _Fail
        if i >= len(args):
            raise _Fail
        val = copy.deepcopy(args[i])
        i += 1
        spec = ""
        is_str = conv in "sra"
        if "-" in flags:
            spec += "<"
        elif is_str and width:
            spec += ">"
        if "+" in flags:
            spec += "+"
        if "0" in flags and "-" not in flags:
            spec += "0"
        if width:
            spec += width
        if prec is not None:
            spec += "." + prec
        if not is_str:
            spec += {"i": "d", "u": "d"}.get(conv, conv)
        cv = {"s": ord("s"), "r": ord("r"), "a": ord("a")}.get(conv, -1)
        if conv == "s" and not spec:
            cv = -1  # f"{x}" == "%s" % x for every x that str() accepts
        values.append(ast.FormattedValue(val, cv, ast.JoinedStr([ast.Constant(spec)]) if spec else None))
    if i != len(args):
        raise _Fail
    if pos < len(tmpl):
        values.append(ast.Constant(tmpl[pos:]))
    if "%" in "".join(v.value for v in values if isinstance(v, ast.Constant) and v.value != "%").replace("%%", ""):
        raise _Fail
    return ast.JoinedStr(values)


def might_apply(node: ast.AST) -> bool:
    for n in ast.walk(node):
        if isinstance(n, ast.Call) and isinstance(n.func, ast.Attribute) and n.func.attr == "format":
            return True
        if isinstance(n, ast.BinOp) and isinstance(n.op, ast.Mod) and isinstance(n.left, (ast.Constant, ast.Name)):
            if isinstance(n.left, ast.Name) or isinstance(n.left.value, str):
                return True
    return False


def normalize_formats(fn: ast.AST, module_top: dict) -> bool:
    """Rewrite in place; returns True when something changed.  `fn` must be a private copy."""
    local: dict[str, list] = {}
    for n in ast.walk(fn):
        if isinstance(n, ast.Assign):
            for t in n.targets:
                for x in ast.walk(t):
                    if isinstance(x, ast.Name) and isinstance(x.ctx, (ast.Store, ast.Del)):
                        local.setdefault(x.id, []).append(n.value if t is x else None)
        elif isinstance(n, (ast.AnnAssign, ast.AugAssign, ast.NamedExpr)):
            t = n.target
            if isinstance(t, ast.Name):
                local.setdefault(t.id, []).append(n.value if isinstance(n, (ast.AnnAssign, ast.NamedExpr)) else None)
        elif isinstance(n, ast.arg):
            local.setdefault(n.arg, []).append(None)
        elif isinstance(n, (ast.For, ast.comprehension)):
            for x in ast.walk(n.target):
                if isinstance(x, ast.Name):
                    local.setdefault(x.id, []).append(None)

    def const_str(e):
        if isinstance(e, ast.Constant) and isinstance(e.value, str):
            return e.value
        if isinstance(e, ast.Name):
            if e.id in local:
                vs = local[e.id]
                if len(vs) == 1 and vs[0] is not None:
                    return const_str(vs[0]) if not isinstance(vs[0], ast.Name) else None
                return None
            s = module_top.get(e.id)
            if isinstance(s, (ast.Assign, ast.AnnAssign)) and s.value is not None:
                return const_str(s.value) if not isinstance(s.value, ast.Name) else None
        if isinstance(e, ast.BinOp) and isinstance(e.op, ast.Add):
            a, b = const_str(e.left), const_str(e.right)
            if a is not None and b is not None:
                return a + b
        return None

    def seq_elts(e):
        if isinstance(e, (ast.Tuple, ast.List)):
            return list(e.elts)
        if isinstance(e, ast.Name) and e.id in local and len(local[e.id]) == 1 and isinstance(local[e.id][0], (ast.Tuple, ast.List)):
            return list(local[e.id][0].elts)
        return None

    changed = False

    class T(ast.NodeTransformer):
        def visit_Call(self, n):
            nonlocal changed
            self.generic_visit(n)
            if isinstance(n.func, ast.Attribute) and n.func.attr == "format":
                tmpl = const_str(n.func.value)
                if tmpl is None:
                    return n
                args = []
                for a in n.args:
                    if isinstance(a, ast.Starred):
                        el = seq_elts(a.value)
                        if el is None or any(isinstance(x, ast.Starred) for x in el):
                            return n
                        args.extend(el)
                    else:
                        args.append(a)
                if any(k.arg is None for k in n.keywords):
                    return n
                kwargs = {k.arg: k.value for k in n.keywords}
                try:
                    js = _joined(tmpl, args, kwargs, [0])
                except _Fail:
                    return n
                changed = True
                return ast.copy_location(js, n)
            return n

        def visit_BinOp(self, n):
            nonlocal changed
            self.generic_visit(n)
            if isinstance(n.op, ast.Mod):
                tmpl = const_str(n.left)
                if tmpl is None or "%" not in tmpl:
                    return n
                right = n.right
                if isinstance(right, ast.Name):
                    el = seq_elts(right)
                    if el is not None:
                        right = ast.Tuple(el, ast.Load())
                    else:
                        return n  # could be a tuple at run time
                try:
                    js = _percent(tmpl, right)
                except _Fail:
                    return n
                changed = True
                return ast.copy_location(js, n)
            return n

    T().visit(fn)
    if changed:
        ast.fix_missing_locations(fn)
    return changed


# ---------------------------------------------------------------------------
# table dispatch -> if / elif chain


def might_dispatch(node: ast.AST, module_top: dict) -> bool:
    for n in ast.walk(node):
        if isinstance(n, ast.Subscript) and isinstance(n.value, ast.Name) and _table(module_top, n.value.id) is not None:
            return True
    return False


def _table(module_top, name):
    s = module_top.get(name)
    if isinstance(s, (ast.Assign, ast.AnnAssign)) and isinstance(s.value, ast.Dict) and s.value.keys \
            and all(isinstance(k, ast.Constant) for k in s.value.keys):
        return s.value
    return None


def desugar_tables(fn: ast.AST, module_top: dict) -> bool:
    """`x, y = TABLE[k]` / `x = TABLE[k]` with TABLE a module-level dict display with constant keys becomes
    `if k == K1: x, y = V1  elif k == K2: ...  else: raise KeyError(k)`.  In place, on a private copy."""
    changed = False

    def rewrite(blk):
        nonlocal changed
        for i, s in enumerate(list(blk)):
            if isinstance(s, ast.Assign) and isinstance(s.value, ast.Subscript) and isinstance(s.value.value, ast.Name) \
                    and isinstance(s.value.slice, (ast.Name, ast.Attribute)):
                d = _table(module_top, s.value.value.id)
                if d is not None:
                    key = s.value.slice
                    chain = [ast.Raise(ast.Call(ast.Name("KeyError", ast.Load()), [copy.deepcopy(key)], []), None)]
                    for k, v in reversed(list(zip(d.keys, d.values))):
                        test = ast.Compare(copy.deepcopy(key), [ast.Eq()], [copy.deepcopy(k)])
                        asg = ast.Assign(copy.deepcopy(s.targets), copy.deepcopy(v))
                        chain = [ast.If(test, [asg], chain)]
                    new = chain[0]
                    for n in ast.walk(new):
                        ast.copy_location(n, s)
                    blk[blk.index(s)] = new
                    changed = True
                    continue
            for fld in ("body", "orelse", "finalbody"):
                b = getattr(s, fld, None)
                if isinstance(b, list) and b and isinstance(b[0], ast.stmt) and not isinstance(s, (ast.FunctionDef, ast.AsyncFunctionDef, ast.ClassDef)):
                    rewrite(b)
            if isinstance(s, ast.Try):
                for h in s.handlers:
                    rewrite(h.body)
            if isinstance(s, ast.Match):
                for c in s.cases:
                    rewrite(c.body)

    rewrite(fn.body)
    if changed:
        ast.fix_missing_locations(fn)
    return changed


# ---------------------------------------------------------------------------
# `for x in (a, b, c): body`  ->  body[a/x]; body[b/x]; body[c/x]


def _const_seq(module_top, e):
    """the display behind a loop's iterable: a literal tuple / list, or a module-level name bound once to one"""
    if isinstance(e, (ast.Tuple, ast.List)):
        return e
    if isinstance(e, ast.Name) and module_top is not None:
        s = module_top.get(e.id)
        if isinstance(s, (ast.Assign, ast.AnnAssign)) and isinstance(s.value, (ast.Tuple, ast.List)) \
                and all(isinstance(x, (ast.Constant, ast.Attribute, ast.Name)) for x in s.value.elts):
            return s.value
    return None


def might_unroll(node: ast.AST, module_top=None) -> bool:
    return any(isinstance(n, ast.For) and (_const_seq(module_top, n.iter) is not None or (isinstance(n.iter, (ast.Tuple, ast.List)) and any(isinstance(e, ast.Starred) for e in n.iter.elts)) or
                                           (isinstance(n.iter, ast.Attribute) and isinstance(n.iter.value, ast.Name) and n.iter.attr.isupper() or
                                            (isinstance(n.iter, ast.Attribute) and isinstance(n.iter.value, ast.Name) and n.iter.attr.lstrip("_").isupper())))
               for n in ast.walk(node))


def unroll_literal_loops(fn: ast.AST, module_top=None, class_consts=None, class_names=()) -> bool:
    """`class_consts`: name -> tuple display bound once in the class body (`_TABLE = ((..), (..))`), reachable as self.NAME / cls.NAME"""
    changed = False
    class_consts = class_consts or {}
    local_stores = {n.id for n in ast.walk(fn) if isinstance(n, ast.Name) and isinstance(n.ctx, (ast.Store, ast.Del))} | {a.arg for a in ast.walk(fn) if isinstance(a, ast.arg)}

    class S(ast.NodeTransformer):
        def __init__(self, name, repl):
            self.name, self.repl = name, repl

        def visit_Name(self, n):
            if n.id == self.name and isinstance(n.ctx, ast.Load):
                return copy.deepcopy(self.repl)
            return n

    def _simple(e):
        return isinstance(e, (ast.Constant, ast.Name)) or (isinstance(e, ast.Attribute) and _simple(e.value))

    def local_literal(name):
        """the display a local is bound to exactly once, when nothing else touches the local (no rebinding, no method call, no item store)"""
        defs = [s for s in ast.walk(fn) if isinstance(s, ast.Assign) and len(s.targets) == 1 and isinstance(s.targets[0], ast.Name) and s.targets[0].id == name]
        stores = [n for n in ast.walk(fn) if isinstance(n, ast.Name) and n.id == name and isinstance(n.ctx, (ast.Store, ast.Del))]
        if len(defs) != 1 or len(stores) != 1 or any(a.arg == name for a in ast.walk(fn) if isinstance(a, ast.arg)):
            return None
        v = defs[0].value
        if isinstance(v, (ast.Tuple, ast.List)) and all(_simple(x) for x in v.elts):
            pass
        elif isinstance(v, ast.Dict) and all(isinstance(k, ast.Constant) for k in v.keys) and all(_simple(x) for x in v.values):
            pass
        else:
            return None
        for n in ast.walk(fn):
            if isinstance(n, ast.Attribute) and isinstance(n.value, ast.Name) and n.value.id == name and n.attr not in ("items", "keys", "values", "get"):
                return None
            if isinstance(n, ast.Subscript) and isinstance(n.value, ast.Name) and n.value.id == name and not isinstance(n.ctx, ast.Load):
                return None
        return v

    def seq(loop):
        it = loop.iter
        if isinstance(it, (ast.Tuple, ast.List)) and any(isinstance(e, ast.Starred) for e in it.elts):
            # `(*owners, self)` with `owners` a local bound once to a display: the display with the splat spelled out
            flat = []
            for e in it.elts:
                if isinstance(e, ast.Starred):
                    v = local_literal(e.value.id) if isinstance(e.value, ast.Name) and e.value.id in local_stores else (e.value if isinstance(e.value, (ast.Tuple, ast.List)) else None)
                    if not isinstance(v, (ast.Tuple, ast.List)):
                        return None
                    flat.extend(v.elts)
                else:
                    flat.append(e)
            return ast.Tuple(flat, ast.Load()) if all(_simple(x) for x in flat) else None
        if isinstance(it, ast.Name) and it.id in local_stores:
            v = local_literal(it.id)
            if isinstance(v, (ast.Tuple, ast.List)):
                return v
            if isinstance(v, ast.Dict):
                return ast.Tuple(list(v.keys), ast.Load())
            return None
        if isinstance(it, ast.Call) and not it.args and not it.keywords and isinstance(it.func, ast.Attribute) and isinstance(it.func.value, ast.Name) \
                and it.func.attr in ("items", "keys", "values"):
            v = local_literal(it.func.value.id)
            if isinstance(v, ast.Dict):
                if it.func.attr == "items":
                    return ast.Tuple([ast.Tuple([k, x], ast.Load()) for k, x in zip(v.keys, v.values)], ast.Load())
                return ast.Tuple(list(v.keys if it.func.attr == "keys" else v.values), ast.Load())
            return None
        if isinstance(it, ast.Attribute) and isinstance(it.value, ast.Name) and (it.value.id in ("self", "cls") or it.value.id in class_names) and it.attr in class_consts:
            return class_consts[it.attr]
        return _const_seq(module_top, loop.iter)

    def targets(loop):
        t = loop.target
        if isinstance(t, ast.Name):
            return [t.id]
        if isinstance(t, ast.Tuple) and all(isinstance(x, ast.Name) for x in t.elts):
            return [x.id for x in t.elts]
        return None

    def ok(loop):
        sq = seq(loop)
        tg = targets(loop)
        if sq is None or loop.orelse or tg is None or not (0 <= len(sq.elts) <= 16):
            return False
        if not sq.elts and not (isinstance(loop.iter, ast.Name) or isinstance(loop.iter, ast.Call)):
            return False
        if any(isinstance(e, ast.Starred) for e in sq.elts):
            return False
        if len(tg) > 1 and not all(isinstance(e, ast.Tuple) and len(e.elts) == len(tg) for e in sq.elts):
            return False
        for b in loop.body:
            for n in ast.walk(b):
                if isinstance(n, (ast.Break, ast.Continue, ast.FunctionDef, ast.Lambda, ast.Yield, ast.YieldFrom)):
                    return False
                if isinstance(n, ast.Name) and n.id in tg and not isinstance(n.ctx, ast.Load):
                    return False
        return True

    def rewrite(blk):
        nonlocal changed
        i = 0
        while i < len(blk):
            s = blk[i]
            if isinstance(s, ast.For) and ok(s):
                out = []
                tg = targets(s)
                for e in seq(s).elts:
                    for b in s.body:
                        c = copy.deepcopy(b)
                        if len(tg) == 1:
                            c = S(tg[0], e).visit(c)
                        else:
                            for nm, x in zip(tg, e.elts):
                                c = S(nm, x).visit(c)
                        out.append(c)
                blk[i : i + 1] = out or [ast.copy_location(ast.Pass(), s)]
                changed = True
                continue
            for fld in ("body", "orelse", "finalbody"):
                b = getattr(s, fld, None)
                if isinstance(b, list) and b and isinstance(b[0], ast.stmt) and not isinstance(s, (ast.FunctionDef, ast.AsyncFunctionDef, ast.ClassDef)):
                    rewrite(b)
            if isinstance(s, ast.Try):
                for h in s.handlers:
                    rewrite(h.body)
            if isinstance(s, ast.Match):
                for c in s.cases:
                    rewrite(c.body)
            i += 1

    rewrite(fn.body)
    if changed:
        ast.fix_missing_locations(fn)
    return changed


# ---------------------------------------------------------------------------
# if / elif chains that dispatch on one subject  ->  match statement


def _chain(s: ast.If):
    """[(test, body)], else_body for an if/elif/.../else chain"""
    arms = []
    cur = s
    while True:
        arms.append((cur.test, cur.body))
        if len(cur.orelse) == 1 and isinstance(cur.orelse[0], ast.If):
            cur = cur.orelse[0]
            continue
        return arms, cur.orelse


def _class_pattern(t):
    if isinstance(t, (ast.Name, ast.Attribute)):
        return ast.MatchClass(t, [], [], [])
    if isinstance(t, ast.Tuple) and t.elts and all(isinstance(x, (ast.Name, ast.Attribute)) for x in t.elts):
        return ast.MatchOr([ast.MatchClass(x, [], [], []) for x in t.elts])
    return None


def _value_pattern(v):
    if isinstance(v, ast.Constant) and isinstance(v.value, (str, int, bytes)) and not isinstance(v.value, bool):
        return ast.MatchValue(v)
    if isinstance(v, ast.Constant) and v.value is None:
        return ast.MatchSingleton(None)
    if isinstance(v, ast.Attribute):  # dotted names are value patterns (Enum.Member)
        return ast.MatchValue(v)
    return None


def _arm_pattern(test):
    """(subject_text, subject_node, pattern) for `isinstance(S, T)`, `S == C`, `S in (C1, C2)`, `S == C1 or S == C2`; else None"""
    if isinstance(test, ast.BoolOp) and isinstance(test.op, ast.Or):
        subs = [_arm_pattern(v) for v in test.values]
        if all(s is not None for s in subs) and len({s[0] for s in subs}) == 1 and len({s[3] for s in subs}) == 1:
            pats = []
            for s in subs:
                pats.extend(s[2].patterns if isinstance(s[2], ast.MatchOr) else [s[2]])
            return subs[0][0], subs[0][1], ast.MatchOr(pats), subs[0][3]
        return None
    if isinstance(test, ast.Call) and isinstance(test.func, ast.Name) and test.func.id == "isinstance" and len(test.args) == 2 and not test.keywords:
        p = _class_pattern(test.args[1])
        if p is not None:
            return ast.unparse(test.args[0]), test.args[0], p, "class"
    if isinstance(test, ast.Compare) and len(test.ops) == 1:
        l, r = test.left, test.comparators[0]
        if isinstance(test.ops[0], ast.Eq):
            p = _value_pattern(r)
            if p is not None and not isinstance(p, ast.MatchSingleton):
                return ast.unparse(l), l, p, "value"
        if isinstance(test.ops[0], ast.In) and isinstance(r, (ast.Tuple, ast.List, ast.Set)) and r.elts:
            ps = [_value_pattern(x) for x in r.elts]
            if all(p is not None and not isinstance(p, ast.MatchSingleton) for p in ps):
                return ast.unparse(l), l, ast.MatchOr(ps) if len(ps) > 1 else ps[0], "value"
    return None


def might_matchify(node: ast.AST) -> bool:
    for n in ast.walk(node):
        if isinstance(n, ast.If) and _arm_pattern(n.test) is not None:
            return True
    return False


def matchify(fn: ast.AST) -> bool:
    """if/elif chains (>= 2 tested arms) that test one side-effect-free subject by isinstance / == const / in (consts)
    become `match subject:` with class / value patterns; a final else becomes `case _`."""
    changed = False

    def convert(s: ast.If):
        arms, els = _chain(s)
        if len(arms) < 2:
            return None
        pats = []
        subj = None
        kinds = set()
        for test, body in arms:
            ap = _arm_pattern(test)
            if ap is None:
                return None
            txt, node, pat, kind = ap
            if subj is None:
                subj = (txt, node)
            elif subj[0] != txt:
                return None
            kinds.add(kind)
            pats.append((pat, body))
        if len(kinds) != 1:
            return None
        if not isinstance(subj[1], (ast.Name, ast.Attribute)) and not (
                isinstance(subj[1], ast.Call) and isinstance(subj[1].func, ast.Attribute) and subj[1].func.attr in ("lower", "upper", "strip", "casefold") and not subj[1].args):
            return None
        # arms must not rebind the subject before a later test could see it: each arm body runs after its own test only - fine
        cases = [ast.match_case(p, None, list(b)) for p, b in pats]
        if els:
            cases.append(ast.match_case(ast.MatchAs(None, None), None, list(els)))
        m = ast.Match(subj[1], cases)
        return ast.copy_location(m, s)

    def ends(blk):
        if not blk:
            return False
        t = blk[-1]
        if isinstance(t, (ast.Return, ast.Raise, ast.Continue, ast.Break)):
            return True
        return isinstance(t, ast.If) and ends(t.body) and ends(t.orelse)

    def convert_run(blk, i):
        """`if S == a: return ..` / `if S == b: return ..` / rest   ->   match S: case a / case b / case _: rest"""
        run = []
        subj = None
        j = i
        while j < len(blk):
            s = blk[j]
            if not (isinstance(s, ast.If) and not s.orelse and ends(s.body)):
                break
            ap = _arm_pattern(s.test)
            if ap is None or not isinstance(ap[1], (ast.Name, ast.Attribute)):
                break
            if subj is None:
                subj = ap
            elif subj[0] != ap[0] or subj[3] != ap[3]:
                break
            run.append((ap[2], s.body))
            j += 1
        if len(run) < 2:
            return None
        cases = [ast.match_case(p, None, list(b)) for p, b in run]
        rest = blk[j:]
        if rest:
            cases.append(ast.match_case(ast.MatchAs(None, None), None, list(rest)))
        m = ast.copy_location(ast.Match(subj[1], cases), blk[i])
        return m, j

    def rewrite(blk):
        nonlocal changed
        i = 0
        while i < len(blk):
            s = blk[i]
            if isinstance(s, ast.If):
                m = convert(s)
                if m is not None:
                    blk[i] = m
                    s = m
                    changed = True
                else:
                    r = convert_run(blk, i)
                    if r is not None:
                        m, j = r
                        blk[i:] = [m]
                        s = m
                        changed = True
            for fld in ("body", "orelse", "finalbody"):
                b = getattr(s, fld, None)
                if isinstance(b, list) and b and isinstance(b[0], ast.stmt) and not isinstance(s, (ast.FunctionDef, ast.AsyncFunctionDef, ast.ClassDef)):
                    rewrite(b)
            if isinstance(s, ast.Try):
                for h in s.handlers:
                    rewrite(h.body)
            if isinstance(s, ast.Match):
                for c in s.cases:
                    rewrite(c.body)
            i += 1

    rewrite(fn.body)
    if changed:
        ast.fix_missing_locations(fn)
    return changed


# ---------------------------------------------------------------------------
# scalar replacement of private NamedTuple / dataclass-like value groups


def _nt_fields(cls_node: ast.ClassDef):
    """field names of `class _X(NamedTuple): a: T; b: T = d` (None if the class is something else)"""
    if not any(ast.unparse(b).split(".")[-1] == "NamedTuple" for b in cls_node.bases):
        return None
    out = []
    for s in cls_node.body:
        if isinstance(s, ast.AnnAssign) and isinstance(s.target, ast.Name):
            out.append((s.target.id, s.value))
    return out or None


def scalar_replace(fn: ast.AST, module) -> bool:
    """A local bound exactly once to `_Group(a, b, c)` (a private NamedTuple of this module) is dissolved:
    `g.field` reads become the constructor argument, `x, y, z = g` becomes `x, y, z = (a, b, c)`.
    In place, on a private copy; returns True when something changed."""
    groups = {}
    for name, node in module.top.items():
        if isinstance(node, ast.ClassDef) and name.startswith("_") and not name.startswith("__"):
            flds = _nt_fields(node)
            if flds:
                groups[name] = flds
    if not groups:
        return False
    binds: dict[str, list] = {}
    for n in ast.walk(fn):
        if isinstance(n, ast.Assign):
            for t in n.targets:
                for x in ast.walk(t):
                    if isinstance(x, ast.Name) and isinstance(x.ctx, (ast.Store, ast.Del)):
                        binds.setdefault(x.id, []).append(n.value if t is x else None)
        elif isinstance(n, (ast.AnnAssign, ast.AugAssign, ast.NamedExpr)) and isinstance(n.target, ast.Name):
            binds.setdefault(n.target.id, []).append(getattr(n, "value", None) if not isinstance(n, ast.AugAssign) else None)
        elif isinstance(n, (ast.For, ast.comprehension)):
            for x in ast.walk(n.target):
                if isinstance(x, ast.Name):
                    binds.setdefault(x.id, []).append(None)
        elif isinstance(n, ast.arg):
            binds.setdefault(n.arg, []).append(None)
    vals = {}

    def ctor_fields(call):
        if isinstance(call, ast.Call) and isinstance(call.func, ast.Name) and call.func.id in groups and len(call.args) == 1 \
                and isinstance(call.args[0], ast.Starred) and not call.keywords:
            # `_Group(*f(...))`: all fields at once, unpacked from one value
            return ({"*": call.args[0].value}, [fname for fname, _ in groups[call.func.id]])
        if not (isinstance(call, ast.Call) and isinstance(call.func, ast.Name) and call.func.id in groups
                and not any(isinstance(a, ast.Starred) for a in call.args) and not any(k.arg is None for k in call.keywords)):
            return None
        flds = groups[call.func.id]
        d = {}
        for (fname, default), a in zip(flds, call.args):
            d[fname] = a
        for k in call.keywords:
            d[k.arg] = k.value
        for fname, default in flds:
            if fname not in d and default is not None:
                d[fname] = default
        return (d, [fname for fname, _ in flds]) if all(fname in d for fname, _ in flds) else None

    # `a, b, c = _Group(x, y, z)`: the record is taken apart on the spot
    unpacked_now = False
    for n in ast.walk(fn):
        if isinstance(n, ast.Assign) and len(n.targets) == 1 and isinstance(n.targets[0], ast.Tuple):
            cf0 = ctor_fields(n.value)
            if cf0 is not None and "*" not in cf0[0] and len(cf0[1]) == len(n.targets[0].elts) and not any(isinstance(t, ast.Starred) for t in n.targets[0].elts):
                n.value = ast.copy_location(ast.Tuple([cf0[0][k] for k in cf0[1]], ast.Load()), n.value)
                unpacked_now = True
    if unpacked_now:
        split_parallel_assign(fn)
        ast.fix_missing_locations(fn)
    per_site = {}  # id(call) -> (field values, order): a local may be built in several branches
    copies = {}    # id(Name value) -> source group local: `best = fit`
    grow = True
    while grow:
        grow = False
        for nm, vs in binds.items():
            if nm in vals or not vs or any(v is None for v in vs):
                continue
            ctors = [v for v in vs if isinstance(v, ast.Call)]
            names = [v for v in vs if isinstance(v, ast.Name)]
            if len(ctors) + len(names) != len(vs) or not ctors and not all(v.id in vals for v in names):
                continue
            if len({v.func.id for v in ctors if isinstance(v.func, ast.Name)}) > 1 or not all(v.id in vals for v in names):
                continue
            cf = [ctor_fields(v) for v in ctors]
            if not all(c is not None for c in cf):
                continue
            order = cf[0][1] if cf else vals[names[0].id][1]
            if any(vals[v.id][1] != order for v in names):
                continue
            vals[nm] = ({k: None for k in order}, order)
            for v, c in zip(ctors, cf):
                per_site[id(v)] = c
            for v in names:
                copies[id(v)] = v.id
            grow = True
    if not vals:
        return unpacked_now
    changed = unpacked_now

    def fld_name(g, f):
        return f"{g}__{f}"

    class T(ast.NodeTransformer):
        def visit_Attribute(self, n):
            nonlocal changed
            self.generic_visit(n)
            if isinstance(n.value, ast.Name) and n.value.id in vals and isinstance(n.ctx, ast.Load) and n.attr in vals[n.value.id][0]:
                changed = True
                return ast.copy_location(ast.Name(fld_name(n.value.id, n.attr), ast.Load()), n)
            return n

        def visit_Subscript(self, n):
            nonlocal changed
            self.generic_visit(n)
            if isinstance(n.value, ast.Name) and n.value.id in vals and isinstance(n.ctx, ast.Load) and isinstance(n.slice, ast.Constant) \
                    and isinstance(n.slice.value, int) and 0 <= n.slice.value < len(vals[n.value.id][1]):
                changed = True
                return ast.copy_location(ast.Name(fld_name(n.value.id, vals[n.value.id][1][n.slice.value]), ast.Load()), n)
            return n

        def visit_Assign(self, s):
            nonlocal changed
            self.generic_visit(s)
            if isinstance(s.value, ast.Name) and s.value.id in vals and len(s.targets) == 1 and isinstance(s.targets[0], ast.Tuple) \
                    and len(s.targets[0].elts) == len(vals[s.value.id][1]):
                g = s.value.id
                s.value = ast.copy_location(ast.Tuple([ast.Name(fld_name(g, k), ast.Load()) for k in vals[g][1]], ast.Load()), s.value)
                changed = True
                return s
            # the defining assignment: one local per field, then the group built from those locals
            if len(s.targets) == 1 and isinstance(s.targets[0], ast.Name) and s.targets[0].id in vals and isinstance(s.value, ast.Name) and id(s.value) in copies:
                g, src = s.targets[0].id, copies[id(s.value)]
                out = [ast.copy_location(ast.Assign([ast.Name(fld_name(g, k), ast.Store())], ast.Name(fld_name(src, k), ast.Load())), s) for k in vals[g][1]]
                changed = True
                return out + [s]
            if len(s.targets) == 1 and isinstance(s.targets[0], ast.Name) and s.targets[0].id in vals and isinstance(s.value, ast.Call) and id(s.value) in per_site:
                g = s.targets[0].id
                d, order = per_site[id(s.value)]
                if "*" in d:
                    out = [ast.copy_location(ast.Assign([ast.Tuple([ast.Name(fld_name(g, k), ast.Store()) for k in order], ast.Store())], copy.deepcopy(d["*"])), s)]
                else:
                    out = [ast.copy_location(ast.Assign([ast.Name(fld_name(g, k), ast.Store())], copy.deepcopy(d[k])), s) for k in order]
                s.value = ast.copy_location(ast.Call(s.value.func, [ast.Name(fld_name(g, k), ast.Load()) for k in order], []), s.value)
                changed = True
                return out + [s]
            return s

    T().visit(fn)
    if changed:
        # a group that is no longer read as a whole is not rebuilt either
        def _dead():
            loads = {n.id for n in ast.walk(fn) if isinstance(n, ast.Name) and isinstance(n.ctx, ast.Load)}
            return {g for g in vals if g not in loads}

        dead = _dead()

        class Drop(ast.NodeTransformer):
            def visit_Assign(self, s):
                if len(s.targets) == 1 and isinstance(s.targets[0], ast.Name) and s.targets[0].id in dead:
                    if isinstance(s.value, ast.Name) or (isinstance(s.value, ast.Call) and isinstance(s.value.func, ast.Name) and s.value.func.id in groups
                                                         and all(isinstance(a, ast.Name) for a in s.value.args)):
                        return None
                return s

        while dead:
            Drop().visit(fn)
            more = _dead() - dead
            if not more:
                break
            dead |= more
        if dead:
            for parent in ast.walk(fn):
                for fld in ("body", "orelse", "finalbody"):
                    b = getattr(parent, fld, None)
                    if isinstance(b, list) and not b and fld == "body":
                        parent.body = [ast.Pass()]
        ast.fix_missing_locations(fn)
    return changed


# ---------------------------------------------------------------------------
# clean-up after helper expansion: parallel assignments, duplicated state


def _blocks(fn):
    """every statement list of the function (not entering nested defs)"""
    todo = [fn.body]
    while todo:
        blk = todo.pop()
        yield blk
        for s in blk:
            if isinstance(s, (ast.FunctionDef, ast.AsyncFunctionDef, ast.ClassDef)):
                continue
            for fld in ("body", "orelse", "finalbody"):
                b = getattr(s, fld, None)
                if isinstance(b, list) and b and isinstance(b[0], ast.stmt):
                    todo.append(b)
            if isinstance(s, ast.Try):
                for h in s.handlers:
                    todo.append(h.body)
            if isinstance(s, ast.Match):
                for c in s.cases:
                    todo.append(c.body)


def split_parallel_assign(fn: ast.AST) -> bool:
    """`a, b = (e1, e2)` -> `a = e1; b = e2` when no target is read by another element; `x = x` is dropped."""
    changed = False
    for blk in _blocks(fn):
        i = 0
        while i < len(blk):
            s = blk[i]
            if isinstance(s, ast.Assign) and len(s.targets) == 1 and isinstance(s.targets[0], ast.Tuple) and isinstance(s.value, ast.Tuple) \
                    and len(s.targets[0].elts) == len(s.value.elts) and all(isinstance(t, ast.Name) for t in s.targets[0].elts) \
                    and not any(isinstance(e, ast.Starred) for e in s.value.elts):
                tn = [t.id for t in s.targets[0].elts]
                reads = [{n.id for n in ast.walk(e) if isinstance(n, ast.Name)} for e in s.value.elts]
                ok = all(tn[a] not in reads[b] for a in range(len(tn)) for b in range(len(tn)) if a != b)
                if ok and len(set(tn)) == len(tn):
                    out = []
                    for t, e in zip(s.targets[0].elts, s.value.elts):
                        if isinstance(e, ast.Name) and e.id == t.id:
                            continue
                        out.append(ast.copy_location(ast.Assign([t], e), s))
                    blk[i : i + 1] = out or [ast.copy_location(ast.Pass(), s)]
                    changed = True
                    i += max(1, len(out))
                    continue
            if isinstance(s, ast.Assign) and len(s.targets) == 1 and isinstance(s.targets[0], ast.Name) and isinstance(s.value, ast.Name) and s.value.id == s.targets[0].id:
                blk[i : i + 1] = [ast.copy_location(ast.Pass(), s)] if len(blk) == 1 else []
                changed = True
                continue
            i += 1
    if changed:
        ast.fix_missing_locations(fn)
    return changed


def merge_twin_locals(fn: ast.AST) -> bool:
    """Two locals that carry the same value (state duplicated when a loop was split into a producer and a consumer):
    `x = y` once, and every other assignment of x has the same right-hand side as an assignment of y in the same block.
    x is renamed to y.  Only plain-name assignments count; anything else leaves both alone."""
    params = {a.arg for a in ast.walk(fn) if isinstance(a, ast.arg)}
    asg: dict[str, list] = {}
    other_store = set()
    for bi, blk in enumerate(_blocks(fn)):
        for si, s in enumerate(blk):
            if isinstance(s, ast.Assign) and len(s.targets) == 1 and isinstance(s.targets[0], ast.Name):
                asg.setdefault(s.targets[0].id, []).append((id(blk), si, s))
    for n in ast.walk(fn):
        if isinstance(n, ast.Name) and isinstance(n.ctx, (ast.Store, ast.Del)):
            pass
    plain = {id(s.targets[0]) for lst in asg.values() for _, _, s in lst}
    for n in ast.walk(fn):
        if isinstance(n, ast.Name) and isinstance(n.ctx, (ast.Store, ast.Del)) and id(n) not in plain:
            other_store.add(n.id)
    ren = {}
    for x, xs in asg.items():
        if x in params or x in other_store:
            continue
        copies = [s for _, _, s in xs if isinstance(s.value, ast.Name) and s.value.id != x]
        if len(copies) != 1:
            continue
        y = copies[0].value.id
        if y in params or y in other_store or y not in asg or y in ren or x in ren.values():
            continue
        ys = asg[y]
        ok = True
        for b, i, s in xs:
            if s is copies[0]:
                continue
            if not any(b == b2 and ast.unparse(s2.value) == ast.unparse(s.value) for b2, _, s2 in ys):
                ok = False
        # every assignment of y that x does not mirror must sit in the block of the copy, before it
        cb = [(b, i) for b, i, s in xs if s is copies[0]][0]
        for b2, i2, s2 in ys:
            mirrored = any(b == b2 and s is not copies[0] and ast.unparse(s.value) == ast.unparse(s2.value) for b, _, s in xs)
            if not mirrored and not (b2 == cb[0] and i2 < cb[1]):
                ok = False
        if ok and len(xs) >= 2:
            ren[x] = y
    if not ren:
        return False
    for n in ast.walk(fn):
        if isinstance(n, ast.Name) and n.id in ren:
            n.id = ren[n.id]
    # the mirrored assignments are now duplicates `y = E; y = E` / `y = y`
    for blk in _blocks(fn):
        seen = set()
        i = 0
        while i < len(blk):
            s = blk[i]
            if isinstance(s, ast.Assign) and len(s.targets) == 1 and isinstance(s.targets[0], ast.Name) and s.targets[0].id in ren.values():
                if isinstance(s.value, ast.Name) and s.value.id == s.targets[0].id:
                    del blk[i]
                    continue
                k = (s.targets[0].id, ast.unparse(s.value))
                if k in seen and not any(isinstance(c, ast.Call) for c in ast.walk(s.value)):
                    del blk[i]
                    continue
                seen.add(k)
            elif not isinstance(s, (ast.Assign, ast.Expr)):
                seen.clear()
            i += 1
        if not blk:
            blk.append(ast.Pass())
    ast.fix_missing_locations(fn)
    return True


def propagate_copies(fn: ast.AST) -> bool:
    """`x = y` where x is bound only there and y is bound exactly once (or is a parameter): x is renamed to y."""
    params = {a.arg for a in ast.walk(fn) if isinstance(a, ast.arg)}
    stores: dict[str, int] = {}
    for n in ast.walk(fn):
        if isinstance(n, ast.Name) and isinstance(n.ctx, (ast.Store, ast.Del)):
            stores[n.id] = stores.get(n.id, 0) + 1
    ren = {}
    copies: dict[str, set] = {}
    ncopy: dict[str, int] = {}
    for blk in _blocks(fn):
        for s in blk:
            if isinstance(s, ast.Assign) and len(s.targets) == 1 and isinstance(s.targets[0], ast.Name) and isinstance(s.value, ast.Name):
                copies.setdefault(s.targets[0].id, set()).add(s.value.id)
                ncopy[s.targets[0].id] = ncopy.get(s.targets[0].id, 0) + 1
    for x, ys in copies.items():
        # every binding of x is `x = y` for one and the same y (a result temp set in several branches), y itself bound once
        if len(ys) == 1 and ncopy[x] == stores.get(x):
            y = next(iter(ys))
            if x != y and x not in params and (stores.get(y, 0) == 1 or (y in params and stores.get(y, 0) == 0)) and x not in ren and y not in ren:
                ren[x] = y
    # `x = y` where x is bound only there and y is *read* only there (a result slot filled in several branches and then copied
    # to its final name once): y is renamed to x
    loads: dict[str, int] = {}
    for n in ast.walk(fn):
        if isinstance(n, ast.Name) and isinstance(n.ctx, ast.Load):
            loads[n.id] = loads.get(n.id, 0) + 1
    for x, ys in copies.items():
        if len(ys) == 1 and ncopy[x] == 1 and stores.get(x) == 1 and x not in params and x not in ren:
            y = next(iter(ys))
            if y != x and y not in params and loads.get(y, 0) == 1 and y not in ren and y not in ren.values() and stores.get(y, 0) >= 2:
                ren[y] = x
    if not ren:
        return False
    # resolve chains
    for x in list(ren):
        seen = {x}
        while ren[x] in ren and ren[x] not in seen:
            seen.add(ren[x])
            ren[x] = ren[ren[x]]
    for n in ast.walk(fn):
        if isinstance(n, ast.Name) and n.id in ren:
            n.id = ren[n.id]
    for blk in _blocks(fn):
        blk[:] = [s for s in blk if not (isinstance(s, ast.Assign) and len(s.targets) == 1 and isinstance(s.targets[0], ast.Name)
                                         and isinstance(s.value, ast.Name) and s.value.id == s.targets[0].id)] or [ast.Pass()]
    ast.fix_missing_locations(fn)
    return True


def tuple_state_split(fn: ast.AST) -> bool:
    """A local that only ever holds tuple displays of one length k, and is only read as `t[<const>]` or unpacked into k
    targets (`best = (rmsd, rot)` ... `if r < best[0]` ... `a, b = best`), is split into k locals t__0 .. t__{k-1}."""
    params = {a.arg for a in ast.walk(fn) if isinstance(a, ast.arg)}
    defs: dict[str, list] = {}
    bad = set()
    for n in ast.walk(fn):
        if isinstance(n, ast.Assign):
            for t in n.targets:
                if isinstance(t, ast.Name):
                    if isinstance(n.value, ast.Tuple) and len(n.targets) == 1 and not any(isinstance(e, ast.Starred) for e in n.value.elts):
                        defs.setdefault(t.id, []).append(n)
                    else:
                        bad.add(t.id)
                else:
                    for x in ast.walk(t):
                        if isinstance(x, ast.Name) and isinstance(x.ctx, ast.Store):
                            bad.add(x.id)
        elif isinstance(n, (ast.AugAssign, ast.AnnAssign, ast.NamedExpr)) and isinstance(n.target, ast.Name):
            bad.add(n.target.id)
        elif isinstance(n, (ast.For, ast.comprehension)):
            for x in ast.walk(n.target):
                if isinstance(x, ast.Name):
                    bad.add(x.id)
        elif isinstance(n, (ast.With,)):
            for it in n.items:
                if it.optional_vars is not None:
                    for x in ast.walk(it.optional_vars):
                        if isinstance(x, ast.Name):
                            bad.add(x.id)
    cands = {}
    for nm, ds in defs.items():
        if nm in bad or nm in params:
            continue
        ks = {len(d.value.elts) for d in ds}
        if len(ks) == 1 and 2 <= next(iter(ks)) <= 4:
            cands[nm] = next(iter(ks))
    if not cands:
        return False
    # every load must be t[const] or the whole RHS of an unpack into k names
    parent = {}
    for p in ast.walk(fn):
        for c in ast.iter_child_nodes(p):
            parent[id(c)] = p
    for n in ast.walk(fn):
        if isinstance(n, ast.Name) and n.id in cands and isinstance(n.ctx, ast.Load):
            p = parent.get(id(n))
            ok = False
            if isinstance(p, ast.Subscript) and p.value is n and isinstance(p.slice, ast.Constant) and isinstance(p.slice.value, int) and 0 <= p.slice.value < cands[n.id] and isinstance(p.ctx, ast.Load):
                ok = True
            if isinstance(p, ast.Assign) and p.value is n and len(p.targets) == 1 and isinstance(p.targets[0], ast.Tuple) and len(p.targets[0].elts) == cands[n.id]:
                ok = True
            if not ok:
                cands.pop(n.id, None)
    if not cands:
        return False

    class T(ast.NodeTransformer):
        def visit_Subscript(self, n):
            self.generic_visit(n)
            if isinstance(n.value, ast.Name) and n.value.id in cands and isinstance(n.slice, ast.Constant):
                return ast.copy_location(ast.Name(f"{n.value.id}__{n.slice.value}", ast.Load()), n)
            return n

        def visit_Assign(self, s):
            self.generic_visit(s)
            if len(s.targets) == 1 and isinstance(s.targets[0], ast.Name) and s.targets[0].id in cands and isinstance(s.value, ast.Tuple):
                g = s.targets[0].id
                return [ast.copy_location(ast.Assign([ast.Name(f"{g}__{i}", ast.Store())], e), s) for i, e in enumerate(s.value.elts)]
            if isinstance(s.value, ast.Name) and s.value.id in cands and len(s.targets) == 1 and isinstance(s.targets[0], ast.Tuple):
                g = s.value.id
                return [ast.copy_location(ast.Assign([t], ast.Name(f"{g}__{i}", ast.Load())), s) for i, t in enumerate(s.targets[0].elts)]
            return s

    T().visit(fn)
    ast.fix_missing_locations(fn)
    return True


def beta_reduce(fn: ast.AST) -> bool:
    """A local bound exactly once to a lambda with plain positional parameters: `f(a, b)` becomes the lambda body with
    the arguments substituted (the binding stays when the name is used otherwise)."""
    binds: dict[str, list] = {}
    for n in ast.walk(fn):
        if isinstance(n, ast.Name) and isinstance(n.ctx, (ast.Store, ast.Del)):
            binds.setdefault(n.id, []).append(None)
    lam = {}
    for n in ast.walk(fn):
        if isinstance(n, ast.Assign) and len(n.targets) == 1 and isinstance(n.targets[0], ast.Name) and isinstance(n.value, ast.Lambda) \
                and len(binds.get(n.targets[0].id, [])) == 1:
            a = n.value.args
            if not (a.vararg or a.kwarg or a.kwonlyargs or a.defaults or a.posonlyargs):
                lam[n.targets[0].id] = n.value
    if not lam:
        return False
    changed = False

    class T(ast.NodeTransformer):
        def visit_Call(self, c):
            nonlocal changed
            self.generic_visit(c)
            if isinstance(c.func, ast.Name) and c.func.id in lam and not c.keywords and not any(isinstance(x, ast.Starred) for x in c.args):
                l = lam[c.func.id]
                ps = [x.arg for x in l.args.args]
                if len(ps) == len(c.args):
                    m = dict(zip(ps, c.args))

                    class S(ast.NodeTransformer):
                        def visit_Name(self, n):
                            return copy.deepcopy(m[n.id]) if n.id in m and isinstance(n.ctx, ast.Load) else n

                    changed = True
                    return ast.copy_location(S().visit(copy.deepcopy(l.body)), c)
            return c

    T().visit(fn)
    if changed:
        # drop bindings that are no longer referenced
        used = {n.id for n in ast.walk(fn) if isinstance(n, ast.Name) and isinstance(n.ctx, ast.Load)}
        for blk in _blocks(fn):
            blk[:] = [s for s in blk if not (isinstance(s, ast.Assign) and len(s.targets) == 1 and isinstance(s.targets[0], ast.Name)
                                             and s.targets[0].id in lam and s.targets[0].id not in used)] or [ast.Pass()]
        ast.fix_missing_locations(fn)
    return changed


def fold_format_constants(fn: ast.AST) -> bool:
    """f-string parts that are constants (`{'0.3f'}` inside a format spec, `{3}`) become literal text; adjacent literals merge."""
    changed = False

    class T(ast.NodeTransformer):
        def visit_JoinedStr(self, j):
            nonlocal changed
            self.generic_visit(j)
            vals = []
            for v in j.values:
                if isinstance(v, ast.FormattedValue) and isinstance(v.value, ast.Constant) and isinstance(v.value.value, (str, int)) and not isinstance(v.value.value, bool) \
                        and v.conversion == -1 and v.format_spec is None:
                    v = ast.Constant(str(v.value.value))
                    changed = True
                if isinstance(v, ast.Constant) and vals and isinstance(vals[-1], ast.Constant) and isinstance(vals[-1].value, str) and isinstance(v.value, str):
                    vals[-1] = ast.Constant(vals[-1].value + v.value)
                    changed = True
                else:
                    vals.append(v)
            j.values = vals
            return j

        def visit_FormattedValue(self, v):
            nonlocal changed
            self.generic_visit(v)
            if isinstance(v.format_spec, ast.JoinedStr) and (not v.format_spec.values or all(isinstance(x, ast.Constant) and x.value == "" for x in v.format_spec.values)):
                v.format_spec = None  # an empty spec is no spec
                changed = True
            return v

    T().visit(fn)
    if changed:
        ast.fix_missing_locations(fn)
    return changed


def unroll_unpacked_comprehension(fn: ast.AST) -> bool:
    """`a, b, c = (F(i) for i in range(3))` (also a list comprehension / over a literal tuple) -> `a = F(0); b = F(1); c = F(2)`"""
    changed = False
    for blk in _blocks(fn):
        i = 0
        while i < len(blk):
            s = blk[i]
            if isinstance(s, ast.Assign) and len(s.targets) == 1 and isinstance(s.targets[0], ast.Tuple) and isinstance(s.value, (ast.GeneratorExp, ast.ListComp)) \
                    and len(s.value.generators) == 1 and not s.value.generators[0].ifs and isinstance(s.value.generators[0].target, ast.Name) \
                    and all(isinstance(t, ast.Name) for t in s.targets[0].elts):
                g = s.value.generators[0]
                k = len(s.targets[0].elts)
                vals = None
                if isinstance(g.iter, ast.Call) and isinstance(g.iter.func, ast.Name) and g.iter.func.id == "range" and len(g.iter.args) == 1 \
                        and isinstance(g.iter.args[0], ast.Constant) and g.iter.args[0].value == k:
                    vals = [ast.Constant(j) for j in range(k)]
                elif isinstance(g.iter, (ast.Tuple, ast.List)) and len(g.iter.elts) == k:
                    vals = list(g.iter.elts)
                if vals is not None:
                    out = []
                    for t, v in zip(s.targets[0].elts, vals):
                        class S(ast.NodeTransformer):
                            def visit_Name(self, n):
                                return copy.deepcopy(v) if n.id == g.target.id and isinstance(n.ctx, ast.Load) else n
                        out.append(ast.copy_location(ast.Assign([t], S().visit(copy.deepcopy(s.value.elt))), s))
                    blk[i : i + 1] = out
                    changed = True
                    i += k
                    continue
            i += 1
    if changed:
        ast.fix_missing_locations(fn)
    return changed


# ---------------------------------------------------------------------------
def desugar_attr_builtins(fn: ast.AST) -> bool:
    """`setattr(o, "k", v)` (a statement) -> `o.k = v` ; `getattr(o, "k")` -> `o.k` - only with a constant identifier name."""
    changed = False

    def ident(e):
        return isinstance(e, ast.Constant) and isinstance(e.value, str) and e.value.isidentifier()

    class T(ast.NodeTransformer):
        def visit_Expr(self, s):
            nonlocal changed
            self.generic_visit(s)
            c = s.value
            if isinstance(c, ast.Call) and isinstance(c.func, ast.Name) and c.func.id == "setattr" and len(c.args) == 3 and not c.keywords and ident(c.args[1]):
                changed = True
                return ast.copy_location(ast.Assign([ast.Attribute(c.args[0], c.args[1].value, ast.Store())], c.args[2]), s)
            return s

        def visit_Call(self, c):
            nonlocal changed
            self.generic_visit(c)
            if isinstance(c.func, ast.Name) and c.func.id == "getattr" and len(c.args) == 2 and not c.keywords and ident(c.args[1]):
                changed = True
                return ast.copy_location(ast.Attribute(c.args[0], c.args[1].value, ast.Load()), c)
            return c

    T().visit(fn)
    if changed:
        ast.fix_missing_locations(fn)
    return changed


def resolve_literal_splats(fn: ast.AST) -> bool:
    """`f(*rest)` / `f(**given)` where the local is bound exactly once to a tuple / dict display (what a variadic helper parameter
    becomes when the helper is expanded) -> the explicit arguments."""
    changed = False

    def single(name, kinds):
        defs = [s for s in ast.walk(fn) if isinstance(s, ast.Assign) and len(s.targets) == 1 and isinstance(s.targets[0], ast.Name) and s.targets[0].id == name]
        stores = [n for n in ast.walk(fn) if isinstance(n, ast.Name) and n.id == name and isinstance(n.ctx, (ast.Store, ast.Del))]
        if len(defs) == 1 and len(stores) == 1 and isinstance(defs[0].value, kinds) and not any(a.arg == name for a in ast.walk(fn) if isinstance(a, ast.arg)):
            muts = [n for n in ast.walk(fn) if isinstance(n, ast.Attribute) and isinstance(n.value, ast.Name) and n.value.id == name and n.attr not in ("items", "keys", "values", "get")]
            subs = [n for n in ast.walk(fn) if isinstance(n, ast.Subscript) and isinstance(n.value, ast.Name) and n.value.id == name and not isinstance(n.ctx, ast.Load)]
            if not muts and not subs:
                return defs[0].value
        return None

    for c in [n for n in ast.walk(fn) if isinstance(n, ast.Call)]:
        new_args = []
        for a in c.args:
            v = single(a.value.id, (ast.Tuple, ast.List)) if isinstance(a, ast.Starred) and isinstance(a.value, ast.Name) else None
            if v is not None and not any(isinstance(x, ast.Starred) for x in v.elts):
                new_args.extend(copy.deepcopy(x) for x in v.elts)
                changed = True
            else:
                new_args.append(a)
        c.args = new_args
        new_kw = []
        for k in c.keywords:
            v = single(k.value.id, (ast.Dict,)) if k.arg is None and isinstance(k.value, ast.Name) else None
            if v is not None and all(isinstance(x, ast.Constant) and isinstance(x.value, str) for x in v.keys):
                new_kw.extend(ast.keyword(x.value, copy.deepcopy(y)) for x, y in zip(v.keys, v.values))
                changed = True
            else:
                new_kw.append(k)
        c.keywords = new_kw
    if changed:
        ast.fix_missing_locations(fn)
    return changed


# ---------------------------------------------------------------------------
def might_fuse(node: ast.AST) -> bool:
    names = set()
    for n in ast.walk(node):
        if isinstance(n, ast.Assign) and isinstance(n.value, (ast.GeneratorExp, ast.ListComp)) and len(n.targets) == 1 and isinstance(n.targets[0], ast.Name):
            names.add(n.targets[0].id)
    for n in ast.walk(node):
        if isinstance(n, ast.For) and (isinstance(n.iter, (ast.GeneratorExp, ast.ListComp)) or (isinstance(n.iter, ast.Name) and n.iter.id in names)):
            return True
    return False


def fuse_comprehension_loops(fn: ast.AST) -> bool:
    """`for t in (e for y in IT if C): BODY`  ->  `for y in IT: if C: t = e; BODY` (also through a local that names the
    comprehension, is bound once and is used only as that loop's iterable).  The filter of the comprehension becomes an `if`
    inside the loop, which is where the rules look for guards."""
    changed = False

    def uses(name):
        return [n for n in ast.walk(fn) if isinstance(n, ast.Name) and n.id == name]

    def fuse(loop, comp):
        if len(comp.generators) != 1 or comp.generators[0].is_async or loop.orelse:
            return None
        g = comp.generators[0]
        if any(isinstance(n, (ast.Break, ast.Continue)) for b in loop.body for n in ast.walk(b) if not isinstance(b, (ast.For, ast.While))):
            # `continue` / `break` keep their meaning (they still refer to the one loop), nothing to do
            pass
        body = list(loop.body)
        if not (isinstance(comp.elt, ast.Name) and isinstance(g.target, ast.Name) and isinstance(loop.target, ast.Name) and comp.elt.id == g.target.id):
            body = [ast.copy_location(ast.Assign([copy.deepcopy(loop.target)], copy.deepcopy(comp.elt)), loop)] + body
            new_target = copy.deepcopy(g.target)
            ifs = [copy.deepcopy(c) for c in g.ifs]
        else:
            # same element: keep the loop's own name for it
            class R(ast.NodeTransformer):
                def visit_Name(self, n):
                    return ast.copy_location(ast.Name(loop.target.id, n.ctx), n) if n.id == g.target.id else n
            new_target = copy.deepcopy(loop.target)
            ifs = [R().visit(copy.deepcopy(c)) for c in g.ifs]
        for c in reversed(ifs):
            body = [ast.copy_location(ast.If(c, body, []), loop)]
        return ast.copy_location(ast.For(new_target, copy.deepcopy(g.iter), body, [], None), loop)

    def rewrite(blk):
        nonlocal changed
        i = 0
        while i < len(blk):
            s = blk[i]
            if isinstance(s, ast.For):
                comp, drop = None, None
                if isinstance(s.iter, (ast.GeneratorExp, ast.ListComp)):
                    comp = s.iter
                elif isinstance(s.iter, ast.Name):
                    nm = s.iter.id
                    defs = [(k, d) for k, d in enumerate(blk[:i]) if isinstance(d, ast.Assign) and len(d.targets) == 1 and isinstance(d.targets[0], ast.Name) and d.targets[0].id == nm]
                    if len(defs) == 1 and isinstance(defs[0][1].value, (ast.GeneratorExp, ast.ListComp)) and len(uses(nm)) == 2:
                        k, d = defs[0]
                        read = {n.id for n in ast.walk(d.value) if isinstance(n, ast.Name)}
                        between = {n.id for b in blk[k + 1 : i] for n in ast.walk(b) if isinstance(n, ast.Name) and isinstance(n.ctx, (ast.Store, ast.Del))}
                        if not (read & between):
                            comp, drop = d.value, k
                if comp is not None:
                    new = fuse(s, comp)
                    if new is not None:
                        blk[i] = new
                        if drop is not None:
                            del blk[drop]
                            i -= 1
                        changed = True
                        continue
            for fld in ("body", "orelse", "finalbody"):
                b = getattr(s, fld, None)
                if isinstance(b, list) and b and isinstance(b[0], ast.stmt) and not isinstance(s, (ast.FunctionDef, ast.AsyncFunctionDef, ast.ClassDef)):
                    rewrite(b)
            if isinstance(s, ast.Try):
                for h in s.handlers:
                    rewrite(h.body)
            if isinstance(s, ast.Match):
                for c in s.cases:
                    rewrite(c.body)
            i += 1

    rewrite(fn.body)
    if changed:
        ast.fix_missing_locations(fn)
    return changed


# ---------------------------------------------------------------------------
def fold_substituted_tests(fn: ast.AST, is_method) -> bool:
    """After a helper was expanded with its arguments substituted, tests on an optional parameter are decided:
    `self.flush is not None` (a bound method is never None), `None is None`, `'x' == 'x'`, `callable(self.m)`.
    The arm that cannot run is dropped.  `is_method(name)` says whether `self.<name>` is a plain method of the class."""
    changed = False

    not_none: set = set()   # names known to be an instance of a class here (inside `case Cls():` of `match name`)

    def ev(t):
        if isinstance(t, ast.Constant) and isinstance(t.value, bool):
            return t.value
        if isinstance(t, ast.UnaryOp) and isinstance(t.op, ast.Not):
            v = ev(t.operand)
            return None if v is None else not v
        if isinstance(t, ast.BoolOp):
            vs = [ev(v) for v in t.values]
            if isinstance(t.op, ast.And):
                return False if any(v is False for v in vs) else (True if all(v is True for v in vs) else None)
            return True if any(v is True for v in vs) else (False if all(v is False for v in vs) else None)
        if isinstance(t, ast.Compare) and len(t.ops) == 1:
            l, r, op = t.left, t.comparators[0], t.ops[0]
            if isinstance(op, (ast.Is, ast.IsNot)) and isinstance(l, ast.Name) and l.id in not_none and isinstance(r, ast.Constant) and r.value is None:
                return isinstance(op, ast.IsNot)

            def kind(x):
                if isinstance(x, ast.Constant):
                    return ("const", x.value)
                if isinstance(x, (ast.Tuple, ast.List, ast.Dict, ast.Set, ast.JoinedStr)):
                    return ("method", "<display>")   # a display substituted for an optional parameter: an object, never None
                if isinstance(x, ast.Attribute) and isinstance(x.value, ast.Name) and x.value.id == "self" and is_method(x.attr):
                    return ("method", x.attr)
                return None
            kl, kr = kind(l), kind(r)
            if kl is None or kr is None:
                return None
            if isinstance(op, (ast.Is, ast.IsNot)):
                if kl[0] == "method" and kr == ("const", None) or kr[0] == "method" and kl == ("const", None):
                    same = False
                elif kl[0] == kr[0] == "const" and (kl[1] is None or kr[1] is None or isinstance(kl[1], bool) or isinstance(kr[1], bool)):
                    same = kl[1] is kr[1]
                else:
                    return None
                return same if isinstance(op, ast.Is) else not same
            if isinstance(op, (ast.Eq, ast.NotEq)) and kl[0] == kr[0] == "const":
                return (kl[1] == kr[1]) if isinstance(op, ast.Eq) else (kl[1] != kr[1])
            return None
        if isinstance(t, ast.Call) and isinstance(t.func, ast.Name) and t.func.id == "callable" and len(t.args) == 1:
            a = t.args[0]
            if isinstance(a, ast.Attribute) and isinstance(a.value, ast.Name) and a.value.id == "self" and is_method(a.attr):
                return True
            if isinstance(a, ast.Constant) and a.value is None:
                return False
        return None

    def rewrite(blk):
        nonlocal changed
        i = 0
        while i < len(blk):
            s = blk[i]
            if isinstance(s, ast.If):
                v = ev(s.test)
                if v is not None:
                    keep = s.body if v else s.orelse
                    blk[i : i + 1] = keep or []
                    changed = True
                    continue
            for fld in ("body", "orelse", "finalbody"):
                b = getattr(s, fld, None)
                if isinstance(b, list) and b and isinstance(b[0], ast.stmt) and not isinstance(s, (ast.FunctionDef, ast.AsyncFunctionDef, ast.ClassDef)):
                    rewrite(b)
                    if not b and fld == "body":
                        b.append(ast.copy_location(ast.Pass(), s))
            if isinstance(s, ast.Try):
                for h in s.handlers:
                    rewrite(h.body)
                    if not h.body:
                        h.body.append(ast.copy_location(ast.Pass(), s))
            if isinstance(s, ast.Match):
                for c in s.cases:
                    pt = c.pattern.pattern if isinstance(c.pattern, ast.MatchAs) and c.pattern.pattern is not None else c.pattern
                    added = None
                    if isinstance(s.subject, ast.Name) and isinstance(pt, ast.MatchClass) and s.subject.id not in not_none \
                            and not any(isinstance(x, ast.Name) and x.id == s.subject.id and isinstance(x.ctx, ast.Store) for b in c.body for x in ast.walk(b)):
                        added = s.subject.id
                        not_none.add(added)
                    rewrite(c.body)
                    if added:
                        not_none.discard(added)
                    if not c.body:
                        c.body.append(ast.copy_location(ast.Pass(), s))
            i += 1

    rewrite(fn.body)

    class X(ast.NodeTransformer):
        def visit_IfExp(self, n):
            nonlocal changed
            self.generic_visit(n)
            v = ev(n.test)
            if v is not None:
                changed = True
                return n.body if v else n.orelse
            return n

        def visit_BoolOp(self, n):
            nonlocal changed
            self.generic_visit(n)
            if isinstance(n.op, ast.Or) and len(n.values) >= 2 and isinstance(n.values[-1], ast.Constant) and n.values[-1].value is None:
                # `a or b or None` keeps its meaning only in a truth context; leave it
                return n
            return n

    X().visit(fn)
    if not fn.body:
        fn.body.append(ast.Pass())
    if changed:
        ast.fix_missing_locations(fn)
    return changed


# ---------------------------------------------------------------------------
def hoist_common_tails(fn: ast.AST) -> bool:
    """`if T: A; X  else: B; X`  ->  `if T: A  else: B` ; `X`  (the same last statement in both arms runs after the `if` either way).
    A helper with two `return`s that compute part of the result identically leaves such arms behind when it is expanded."""
    changed = False

    def same(a, b):
        return ast.dump(a, annotate_fields=False, include_attributes=False) == ast.dump(b, annotate_fields=False, include_attributes=False)

    def rewrite(blk):
        nonlocal changed
        i = 0
        while i < len(blk):
            s = blk[i]
            for fld in ("body", "orelse", "finalbody"):
                b = getattr(s, fld, None)
                if isinstance(b, list) and b and isinstance(b[0], ast.stmt) and not isinstance(s, (ast.FunctionDef, ast.AsyncFunctionDef, ast.ClassDef)):
                    rewrite(b)
            if isinstance(s, ast.Try):
                for h in s.handlers:
                    rewrite(h.body)
            if isinstance(s, ast.Match):
                for c in s.cases:
                    rewrite(c.body)
            if isinstance(s, ast.If) and s.body and s.orelse:
                tail = []
                while s.body and s.orelse and same(s.body[-1], s.orelse[-1]) and isinstance(s.body[-1], (ast.Assign, ast.AugAssign, ast.AnnAssign, ast.Expr)) \
                        and not any(isinstance(x, (ast.Yield, ast.YieldFrom, ast.NamedExpr)) for x in ast.walk(s.body[-1])):
                    # the statement must not feed the test of an elif that is itself the else arm (it is not: it comes last)
                    tail.insert(0, s.body.pop())
                    s.orelse.pop()
                if tail:
                    if not s.body:
                        s.body.append(ast.copy_location(ast.Pass(), s))
                    blk[i + 1 : i + 1] = tail
                    changed = True
            i += 1

    rewrite(fn.body)
    if changed:
        ast.fix_missing_locations(fn)
    return changed


# ---------------------------------------------------------------------------
def fold_tuple_locals(fn: ast.AST) -> bool:
    """`shape = (n, m)` ... `np.full(shape + (3,), x)`, `np.ones(shape[:1])`, `np.zeros(shape)`  ->  the tuples written out.
    Only for a local bound exactly once to a tuple display of simple elements that are not rebound afterwards."""
    changed = False

    def simple(e):
        return isinstance(e, (ast.Constant, ast.Name)) or (isinstance(e, ast.Attribute) and simple(e.value))

    stores = {}
    for n in ast.walk(fn):
        if isinstance(n, ast.Name) and isinstance(n.ctx, (ast.Store, ast.Del)):
            stores[n.id] = stores.get(n.id, 0) + 1
    params = {a.arg for a in ast.walk(fn) if isinstance(a, ast.arg)}
    defs = {}
    for n in ast.walk(fn):
        if isinstance(n, ast.Assign) and len(n.targets) == 1 and isinstance(n.targets[0], ast.Name) and isinstance(n.value, ast.Tuple) \
                and stores.get(n.targets[0].id) == 1 and n.targets[0].id not in params and all(simple(x) for x in n.value.elts):
            if all(stores.get(x.id, 0) <= 1 or x.id in params and stores.get(x.id, 0) == 0 for e in n.value.elts for x in ast.walk(e) if isinstance(x, ast.Name)):
                defs[n.targets[0].id] = n.value
    if not defs:
        return False

    class T(ast.NodeTransformer):
        def visit_Subscript(self, n):
            nonlocal changed
            self.generic_visit(n)
            if isinstance(n.value, ast.Tuple) and isinstance(n.ctx, ast.Load):
                try:
                    idx = ast.literal_eval(ast.Expression(n.slice)) if not isinstance(n.slice, ast.Slice) else slice(
                        *(None if x is None else ast.literal_eval(ast.Expression(x)) for x in (n.slice.lower, n.slice.upper, n.slice.step)))
                    r = n.value.elts[idx]
                except Exception:
                    return n
                changed = True
                return ast.copy_location(ast.Tuple(list(r), ast.Load()), n) if isinstance(r, list) else copy.deepcopy(r)
            return n

        def visit_BinOp(self, n):
            nonlocal changed
            self.generic_visit(n)
            if isinstance(n.op, ast.Add) and isinstance(n.left, ast.Tuple) and isinstance(n.right, ast.Tuple):
                changed = True
                return ast.copy_location(ast.Tuple(list(n.left.elts) + list(n.right.elts), ast.Load()), n)
            return n

        def visit_Name(self, n):
            nonlocal changed
            if isinstance(n.ctx, ast.Load) and n.id in defs:
                changed = True
                return ast.copy_location(copy.deepcopy(defs[n.id]), n)
            return n

    T().visit(fn)
    if changed:
        ast.fix_missing_locations(fn)
    return changed


# ---------------------------------------------------------------------------
def ssa_straightline(fn: ast.AST) -> bool:
    """`x = a; ...; x = f(x); ...` in ONE statement list, x bound nowhere else: the earlier bindings get their own names
    (`x__s1 = a; ...; x = f(x__s1)`), so that every local is bound once and can be spelled out by substitution."""
    changed = False
    params = {a.arg for a in ast.walk(fn) if isinstance(a, ast.arg)}
    all_stores = {}
    for n in ast.walk(fn):
        if isinstance(n, ast.Name) and isinstance(n.ctx, (ast.Store, ast.Del)):
            all_stores[n.id] = all_stores.get(n.id, 0) + 1

    def blocks(node):
        out = []
        for fld in ("body", "orelse", "finalbody"):
            b = getattr(node, fld, None)
            if isinstance(b, list) and b and isinstance(b[0], ast.stmt):
                out.append(b)
        if isinstance(node, ast.Try):
            out += [h.body for h in node.handlers]
        if isinstance(node, ast.Match):
            out += [c.body for c in node.cases]
        return out

    def process(blk, in_loop):
        nonlocal changed
        plain = {}
        for i, s in enumerate(blk):
            if isinstance(s, ast.Assign) and len(s.targets) == 1 and isinstance(s.targets[0], ast.Name):
                plain.setdefault(s.targets[0].id, []).append(i)
        for name, idxs in plain.items():
            if len(idxs) < 2 or name in params or all_stores.get(name) != len(idxs) or in_loop:
                continue
            for k, i in enumerate(idxs[:-1]):
                new = f"{name}__s{k + 1}"
                nxt = idxs[k + 1]

                class R(ast.NodeTransformer):
                    def visit_Name(self, n):
                        return ast.copy_location(ast.Name(new, n.ctx), n) if n.id == name and isinstance(n.ctx, ast.Load) else n

                blk[i].targets[0] = ast.copy_location(ast.Name(new, ast.Store()), blk[i].targets[0])
                for j in range(i + 1, nxt):
                    blk[j] = R().visit(blk[j])
                blk[nxt].value = R().visit(blk[nxt].value)
                changed = True
        for s in blk:
            if isinstance(s, (ast.FunctionDef, ast.AsyncFunctionDef, ast.ClassDef)):
                continue
            for b in blocks(s):
                process(b, in_loop or isinstance(s, (ast.For, ast.While)))

    process(fn.body, False)
    if changed:
        ast.fix_missing_locations(fn)
    return changed
