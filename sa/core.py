"""
Program model for the molli static checks (pure stdlib, ast only).

Nothing in here imports or executes molli.  The model is rebuilt from the
working tree on every run; an *overlay* {relative path -> source text} can be
laid over the tree so that the self-test battery can analyse edited variants
without writing them to disk.
"""
from __future__ import annotations

import ast
import os
from dataclasses import dataclass, field
from typing import Iterable, Iterator

REPO = os.environ.get("MOLLI_VERIF_REPO", "/repo")
PACKAGE = "molli"


class AnalysisError(Exception):
    """The checker cannot decide (anchor vanished, unknown idiom, floor not met).

    Mapped to exit status 2: neither a pass nor a VIOLATION."""


# --------------------------------------------------------------------------
# small ast helpers


def dotted(e: ast.AST) -> str | None:
    """`a.b.c` for Name/Attribute chains, else None."""
    parts = []
    while isinstance(e, ast.Attribute):
        parts.append(e.attr)
        e = e.value
    if isinstance(e, ast.Name):
        parts.append(e.id)
        return ".".join(reversed(parts))
    return None


def root_name(e: ast.AST) -> str | None:
    """Name at the root of an attribute / subscript / call chain."""
    while True:
        if isinstance(e, ast.Attribute):
            e = e.value
        elif isinstance(e, ast.Subscript):
            e = e.value
        elif isinstance(e, ast.Call):
            e = e.func
        elif isinstance(e, ast.Starred):
            e = e.value
        else:
            break
    return e.id if isinstance(e, ast.Name) else None


def call_name(c: ast.Call) -> str | None:
    return dotted(c.func)


def calls_in(node: ast.AST) -> Iterator[ast.Call]:
    for n in ast.walk(node):
        if isinstance(n, ast.Call):
            yield n


def names_in(node: ast.AST) -> set[str]:
    return {n.id for n in ast.walk(node) if isinstance(n, ast.Name)}


def free_names(node: ast.AST) -> set[str]:
    """Names read by the expression, without the variables its own comprehensions / lambdas bind."""
    if isinstance(node, (ast.ListComp, ast.SetComp, ast.GeneratorExp, ast.DictComp)):
        bound = set()
        for g in node.generators:
            bound |= {n.id for n in ast.walk(g.target) if isinstance(n, ast.Name)}
        inner = set()
        parts = [node.key, node.value] if isinstance(node, ast.DictComp) else [node.elt]
        for i, g in enumerate(node.generators):
            parts.extend(g.ifs)
            if i:
                parts.append(g.iter)
        for p in parts:
            inner |= free_names(p)
        return (inner - bound) | free_names(node.generators[0].iter)
    if isinstance(node, ast.Lambda):
        a = node.args
        bound = {x.arg for x in a.posonlyargs + a.args + a.kwonlyargs}
        return free_names(node.body) - bound
    if isinstance(node, ast.Name):
        return {node.id}
    out = set()
    for c in ast.iter_child_nodes(node):
        out |= free_names(c)
    return out


def unparse(node: ast.AST) -> str:
    try:
        return ast.unparse(node)
    except Exception:  # pragma: no cover
        return "<%s>" % type(node).__name__


def short(node: ast.AST, n: int = 90) -> str:
    s = " ".join(unparse(node).split())
    return s if len(s) <= n else s[: n - 3] + "..."


def walk_no_nested(node: ast.AST) -> Iterator[ast.AST]:
    """ast.walk that does not descend into nested function / class / lambda bodies."""
    todo = [node]
    first = True
    while todo:
        n = todo.pop()
        if not first and isinstance(
            n, (ast.FunctionDef, ast.AsyncFunctionDef, ast.ClassDef, ast.Lambda)
        ):
            continue
        first = False
        yield n
        todo.extend(reversed(list(ast.iter_child_nodes(n))))  # depth-first, document order


def doc_sorted(root: ast.AST, nodes) -> list:
    """`nodes` in document order of `root` (line numbers are not an order once helpers are expanded in place)."""
    idx = {id(n): i for i, n in enumerate(_preorder(root))}
    return sorted(nodes, key=lambda n: idx.get(id(n), 1 << 30))


def _preorder(node):
    yield node
    for c in ast.iter_child_nodes(node):
        yield from _preorder(c)


def stmts_no_nested(body: Iterable[ast.stmt]) -> Iterator[ast.stmt]:
    """All statements in a body, recursively, not entering nested defs."""
    for s in body:
        yield s
        if isinstance(s, (ast.FunctionDef, ast.AsyncFunctionDef, ast.ClassDef)):
            continue
        for fld in ("body", "orelse", "finalbody"):
            sub = getattr(s, fld, None)
            if sub:
                yield from stmts_no_nested(sub)
        if isinstance(s, ast.Try):
            for h in s.handlers:
                yield from stmts_no_nested(h.body)
        if isinstance(s, ast.Match):
            for c in s.cases:
                yield from stmts_no_nested(c.body)


def contains_yield(node: ast.AST) -> bool:
    return any(isinstance(n, (ast.Yield, ast.YieldFrom)) for n in walk_no_nested(node))


# --------------------------------------------------------------------------
# model


@dataclass
class Member:
    name: str
    owner: "ClassInfo"
    func_raw: ast.FunctionDef | None = None  # plain / class / static method, as written
    getter_raw: ast.FunctionDef | None = None
    setter_raw: ast.FunctionDef | None = None
    deleter: ast.FunctionDef | None = None
    attr: ast.stmt | None = None  # class-level assignment
    decorators: list[str] = field(default_factory=list)

    def _view(self, kind: str):
        """the definition with new private helpers expanded and locals in canonical names (what every rule sees)"""
        raw = getattr(self, kind + "_raw")
        if raw is None:
            return None
        return Func(self.owner.module, f"{self.owner.name}.{self.name}", raw, self.owner, kind).node

    @property
    def func(self):
        return self._view("func")

    @property
    def getter(self):
        return self._view("getter")

    @property
    def setter(self):
        return self._view("setter")

    @property
    def is_property(self) -> bool:
        return self.getter is not None

    def any_node(self) -> ast.AST:
        return self.func or self.getter or self.setter or self.attr


@dataclass
class ClassInfo:
    name: str
    module: "Module"
    node: ast.ClassDef
    members: dict[str, Member] = field(default_factory=dict)
    bases: list["ClassInfo | None"] = field(default_factory=list)
    base_names: list[str] = field(default_factory=list)
    decorators: list[str] = field(default_factory=list)

    @property
    def qualname(self) -> str:
        return f"{self.module.name}:{self.name}"

    def __hash__(self):
        return hash(self.qualname)

    def __eq__(self, o):
        return isinstance(o, ClassInfo) and o.qualname == self.qualname

    def __repr__(self):
        return f"<class {self.qualname}>"


@dataclass
class Func:
    module: "Module"
    qualname: str  # "Class.method" or "function"
    node: ast.FunctionDef
    cls: ClassInfo | None = None
    kind: str = "func"  # func | getter | setter
    raw: ast.FunctionDef | None = None  # the definition as written; `node` has private helpers expanded (sa/inline.py)

    def __post_init__(self):
        if self.raw is None:
            self.raw = self.node
        prog = getattr(self.module, "program", None)
        inl = getattr(prog, "inliner", None)
        if inl is not None:
            self.node = inl.inlined(self)

    @property
    def key(self) -> str:
        return f"{self.module.relpath}:{self.qualname}"

    def where(self, node: ast.AST | None = None) -> str:
        n = node if node is not None and hasattr(node, "lineno") else self.node
        return f"{getattr(n, '_relpath', self.module.relpath)}:{getattr(n, '_srcline', n.lineno)}"

    def params(self) -> list[str]:
        a = self.node.args
        return [x.arg for x in a.posonlyargs + a.args + a.kwonlyargs]

    def __hash__(self):
        return hash((self.key, self.kind))

    def __eq__(self, o):
        return isinstance(o, Func) and (o.key, o.kind) == (self.key, self.kind)

    def __repr__(self):
        return f"<func {self.key}>"


class Module:
    def __init__(self, name: str, relpath: str, src: str, is_pkg: bool):
        self.name = name
        self.relpath = relpath
        self.src = src
        self.is_pkg = is_pkg
        try:
            self.tree = ast.parse(src, filename=relpath)
        except SyntaxError as e:
            raise AnalysisError(f"syntax error in {relpath}: {e}")
        self.top: dict[str, ast.AST] = {}
        self.imports: dict[str, tuple] = {}
        self.star: list[str] = []
        self.classes: dict[str, ClassInfo] = {}
        self.all: list[str] | None = None
        self._index()

    @property
    def package(self) -> str:
        return self.name if self.is_pkg else self.name.rpartition(".")[0]

    def _abs(self, level: int, mod: str | None) -> str:
        if level == 0:
            return mod or ""
        base = self.package.split(".")
        if level > 1:
            base = base[: len(base) - (level - 1)]
        return ".".join(base + ([mod] if mod else []))

    def _index(self):
        def visit(body):
            for s in body:
                if isinstance(s, (ast.FunctionDef, ast.AsyncFunctionDef)):
                    self.top[s.name] = s
                elif isinstance(s, ast.ClassDef):
                    self.top[s.name] = s
                elif isinstance(s, ast.Assign):
                    for t in s.targets:
                        if isinstance(t, ast.Name):
                            self.top[t.id] = s
                            if t.id == "__all__":
                                try:
                                    self.all = list(ast.literal_eval(s.value))
                                except Exception:
                                    pass
                elif isinstance(s, ast.AnnAssign) and isinstance(s.target, ast.Name):
                    self.top[s.target.id] = s
                elif isinstance(s, ast.Import):
                    for a in s.names:
                        if a.asname:
                            self.imports[a.asname] = ("mod", a.name)
                        else:
                            head = a.name.split(".")[0]
                            self.imports[head] = ("mod", head)
                elif isinstance(s, ast.ImportFrom):
                    m = self._abs(s.level, s.module)
                    for a in s.names:
                        if a.name == "*":
                            self.star.append(m)
                        else:
                            self.imports[a.asname or a.name] = ("from", m, a.name)
                elif isinstance(s, (ast.Try, ast.If)):
                    visit(s.body)
                    visit(s.orelse)
                    for h in getattr(s, "handlers", []):
                        visit(h.body)

        visit(self.tree.body)


class Program:
    """All modules of the package under `root`, with name / class / MRO resolution."""

    def __init__(self, root: str = REPO, overlay: dict[str, str] | None = None, inline: bool = True):
        self.root = root
        self.overlay = overlay or {}
        self.modules: dict[str, Module] = {}
        self._load()
        self._classes: dict[str, list[ClassInfo]] = {}
        self._index_classes()
        self._mro_cache: dict[str, list[ClassInfo]] = {}
        self.inliner = None
        for m in self.modules.values():
            m.program = self
        if inline:
            from .inline import Inliner

            self.inliner = Inliner(self)

    # -- loading ---------------------------------------------------------
    def _load(self):
        pkgroot = os.path.join(self.root, PACKAGE)
        if not os.path.isdir(pkgroot):
            raise AnalysisError(f"{pkgroot} does not exist")
        for d, dirs, files in os.walk(pkgroot):
            dirs[:] = sorted(x for x in dirs if x != "__pycache__")
            for f in sorted(files):
                if not f.endswith(".py"):
                    continue
                full = os.path.join(d, f)
                rel = os.path.relpath(full, self.root)
                if rel in self.overlay:
                    src = self.overlay[rel]
                else:
                    with open(full, encoding="utf8") as fh:
                        src = fh.read()
                parts = rel[:-3].split(os.sep)
                is_pkg = parts[-1] == "__init__"
                if is_pkg:
                    parts = parts[:-1]
                name = ".".join(parts)
                self.modules[name] = Module(name, rel, src, is_pkg)
        for rel in self.overlay:
            if rel.endswith(".py") and rel.startswith(PACKAGE + os.sep):
                parts = rel[:-3].split(os.sep)
                is_pkg = parts[-1] == "__init__"
                name = ".".join(parts[:-1] if is_pkg else parts)
                if name not in self.modules:
                    self.modules[name] = Module(name, rel, self.overlay[rel], is_pkg)

    def read_text(self, rel: str) -> str:
        if rel in self.overlay:
            return self.overlay[rel]
        p = os.path.join(self.root, rel)
        if not os.path.isfile(p):
            raise AnalysisError(f"anchor file vanished: {rel}")
        with open(p, encoding="utf8", errors="replace") as fh:
            return fh.read()

    def _index_classes(self):
        for m in self.modules.values():
            for n in ast.walk(m.tree):
                if isinstance(n, ast.ClassDef) and n.name in m.top and m.top[n.name] is n:
                    ci = ClassInfo(n.name, m, n)
                    ci.base_names = [unparse(b) for b in n.bases]
                    ci.decorators = [unparse(d) for d in n.decorator_list]
                    self._index_members(ci)
                    m.classes[n.name] = ci
                    self._classes.setdefault(n.name, []).append(ci)
        for m in self.modules.values():
            for ci in m.classes.values():
                ci.bases = []
                for b in ci.node.bases:
                    if isinstance(b, ast.Subscript):  # Generic[T], MutableMapping[str, T]
                        b = b.value
                    r = self.resolve_expr(m, b)
                    ci.bases.append(r if isinstance(r, ClassInfo) else None)

    @staticmethod
    def _index_members(ci: ClassInfo):
        for s in ci.node.body:
            if isinstance(s, (ast.FunctionDef, ast.AsyncFunctionDef)):
                decos = [unparse(d) for d in s.decorator_list]
                mem = ci.members.setdefault(s.name, Member(s.name, ci))
                mem.decorators.extend(decos)
                if any(d in ("property", "cached_property", "functools.cached_property") for d in decos):
                    mem.getter_raw = s
                elif any(d.endswith(".setter") for d in decos):
                    mem.setter_raw = s
                elif any(d.endswith(".deleter") for d in decos):
                    mem.deleter = s
                elif any(d.endswith(".getter") for d in decos):
                    mem.getter_raw = s
                else:
                    mem.func_raw = s
            elif isinstance(s, ast.Assign):
                for t in s.targets:
                    if isinstance(t, ast.Name):
                        ci.members.setdefault(t.id, Member(t.id, ci)).attr = s
            elif isinstance(s, ast.AnnAssign) and isinstance(s.target, ast.Name):
                ci.members.setdefault(s.target.id, Member(s.target.id, ci)).attr = s

    # -- lookup -----------------------------------------------------------
    def module(self, name: str) -> Module:
        try:
            return self.modules[name]
        except KeyError:
            raise AnalysisError(f"anchor module vanished: {name}")

    def cls(self, spec: str) -> ClassInfo:
        """`Name` (must be unique) or `module:Name`."""
        if ":" in spec:
            mod, _, name = spec.partition(":")
            ci = self.module(mod).classes.get(name)
            if ci is None:
                raise AnalysisError(f"anchor class vanished: {spec}")
            return ci
        lst = self._classes.get(spec, [])
        if len(lst) != 1:
            raise AnalysisError(f"anchor class {spec}: {len(lst)} definitions")
        return lst[0]

    def all_classes(self) -> list[ClassInfo]:
        return [c for l in self._classes.values() for c in l]

    def func(self, spec: str, kind: str = "func") -> Func:
        """`module:function` or `module:Class.method`."""
        mod, _, qn = spec.partition(":")
        m = self.module(mod)
        if "." in qn:
            cn, _, fn = qn.partition(".")
            ci = m.classes.get(cn)
            if ci is None:
                raise AnalysisError(f"anchor class vanished: {mod}:{cn}")
            mem = ci.members.get(fn)
            node = None
            if mem is not None:
                node = {"func": mem.func, "getter": mem.getter, "setter": mem.setter}[kind]
            if node is None:
                raise AnalysisError(f"anchor function vanished: {spec} ({kind})")
            return Func(m, qn, node, ci, kind)
        node = m.top.get(qn)
        if not isinstance(node, (ast.FunctionDef, ast.AsyncFunctionDef)):
            raise AnalysisError(f"anchor function vanished: {spec}")
        return Func(m, qn, node, None)

    def has_func(self, spec: str, kind: str = "func") -> bool:
        try:
            self.func(spec, kind)
            return True
        except AnalysisError:
            return False

    def method(self, ci: ClassInfo, name: str, kind: str = "func") -> Func | None:
        """Method `name` as seen from concrete class `ci` (MRO lookup)."""
        r = self.lookup(ci, name)
        if r is None:
            return None
        owner, mem = r
        node = {"func": mem.func, "getter": mem.getter, "setter": mem.setter}[kind]
        if node is None:
            return None
        return Func(owner.module, f"{owner.name}.{name}", node, owner, kind)

    def functions(self, modules: Iterable[str] | None = None) -> Iterator[Func]:
        """Every function / method / property accessor of the given modules.  New private helpers whose every
        call site was expanded in place (sa/inline.py) are not listed: their statements are in their callers."""
        gone = self.inliner.dissolved() if self.inliner is not None else ()
        for f in self._all_functions(modules):
            if f.key not in gone:
                yield f

    def _all_functions(self, modules: Iterable[str] | None = None) -> Iterator[Func]:
        for mn, m in self.modules.items():
            if modules is not None and mn not in modules:
                continue
            for name, node in m.top.items():
                if isinstance(node, (ast.FunctionDef, ast.AsyncFunctionDef)):
                    yield Func(m, name, node, None)
            for ci in m.classes.values():
                for mem in ci.members.values():
                    for kind in ("func", "getter", "setter"):
                        node = getattr(mem, kind)
                        if node is not None:
                            yield Func(m, f"{ci.name}.{mem.name}", node, ci, kind)

    # -- names -----------------------------------------------------------
    def resolve_name(self, m: Module, name: str, _seen=None):
        """Resolve a global name of module m to a Module / ClassInfo / Func /
        ('const', module, node) / ('external', dotted) / None."""
        _seen = _seen or set()
        k = (m.name, name)
        if k in _seen:
            return None
        _seen.add(k)
        if name in m.classes:
            return m.classes[name]
        if name in m.top:
            node = m.top[name]
            if isinstance(node, (ast.FunctionDef, ast.AsyncFunctionDef)):
                return Func(m, name, node, None)
            return ("const", m, node)
        if name in m.imports:
            imp = m.imports[name]
            if imp[0] == "mod":
                return self.modules.get(imp[1]) or ("external", imp[1])
            _, mod, attr = imp
            sub = f"{mod}.{attr}" if mod else attr
            if sub in self.modules:
                return self.modules[sub]
            if mod in self.modules:
                return self.resolve_name(self.modules[mod], attr, _seen)
            return ("external", sub)
        for sm in m.star:
            if sm in self.modules:
                tm = self.modules[sm]
                if tm.all is not None and name not in tm.all:
                    continue
                if name.startswith("_") and tm.all is None:
                    continue
                r = self.resolve_name(tm, name, _seen)
                if r is not None:
                    return r
        # a subpackage / submodule referenced as attribute of its package
        sub = f"{m.name}.{name}"
        if m.is_pkg and sub in self.modules:
            return self.modules[sub]
        return None

    def resolve_expr(self, m: Module, e: ast.AST):
        """Resolve Name / Attribute chains such as `ml.Molecule`, `np.random.rand`."""
        if isinstance(e, ast.Name):
            return self.resolve_name(m, e.id)
        if isinstance(e, ast.Attribute):
            base = self.resolve_expr(m, e.value)
            if isinstance(base, Module):
                return self.resolve_name(base, e.attr)
            if isinstance(base, ClassInfo):
                r = self.lookup(base, e.attr)
                if r is not None:
                    owner, mem = r
                    if mem.func is not None:
                        return Func(owner.module, f"{owner.name}.{e.attr}", mem.func, owner)
                    return ("member", owner, mem)
                return None
            if isinstance(base, tuple) and base[0] == "external":
                return ("external", base[1] + "." + e.attr)
            return None
        return None

    # -- classes ---------------------------------------------------------
    def mro(self, ci: ClassInfo) -> list[ClassInfo]:
        if ci.qualname in self._mro_cache:
            return self._mro_cache[ci.qualname]

        def merge(seqs):
            res = []
            seqs = [list(s) for s in seqs if s]
            while seqs:
                for s in seqs:
                    cand = s[0]
                    if not any(cand in t[1:] for t in seqs):
                        break
                else:
                    raise AnalysisError(f"inconsistent MRO for {ci.qualname}")
                res.append(cand)
                seqs = [[x for x in s if x != cand] for s in seqs]
                seqs = [s for s in seqs if s]
            return res

        bases = [b for b in ci.bases if b is not None]
        out = [ci] + merge([self.mro(b) for b in bases] + [bases])
        self._mro_cache[ci.qualname] = out
        return out

    def lookup(self, ci: ClassInfo, name: str, after: ClassInfo | None = None):
        """First (owner, Member) for `name` along the MRO of ci (strictly after `after`)."""
        mro = self.mro(ci)
        if after is not None:
            if after not in mro:
                return None
            mro = mro[mro.index(after) + 1 :]
        for c in mro:
            if name in c.members:
                return c, c.members[name]
        return None

    def subclasses(self, ci: ClassInfo) -> list[ClassInfo]:
        return [c for c in self.all_classes() if c != ci and ci in self.mro(c)]

    # -- constants -----------------------------------------------------
    def const_eval(self, m: Module, node: ast.AST, _depth=0):
        """Evaluate a literal-ish expression (tuples, dicts, names of module constants,
        `+` on tuples, slices). Raises AnalysisError when not literal."""
        if _depth > 20:
            raise AnalysisError("constant evaluation too deep")
        ev = lambda n: self.const_eval(m, n, _depth + 1)
        if isinstance(node, ast.Constant):
            return node.value
        if isinstance(node, ast.Tuple):
            return tuple(ev(x) for x in node.elts)
        if isinstance(node, ast.List):
            return [ev(x) for x in node.elts]
        if isinstance(node, ast.Set):
            return {ev(x) for x in node.elts}
        if isinstance(node, ast.Dict):
            return {ev(k): ev(v) for k, v in zip(node.keys, node.values)}
        if isinstance(node, ast.UnaryOp) and isinstance(node.op, ast.USub):
            return -ev(node.operand)
        if isinstance(node, ast.BinOp):
            l, r = ev(node.left), ev(node.right)
            if isinstance(node.op, ast.Add):
                return l + r
            if isinstance(node.op, ast.Sub):
                return l - r
            if isinstance(node.op, ast.Mult):
                return l * r
            if isinstance(node.op, ast.Div):
                return l / r
            if isinstance(node.op, ast.Pow):
                return l**r
        if isinstance(node, ast.Subscript):
            base = ev(node.value)
            s = node.slice
            if isinstance(s, ast.Slice):
                lo = ev(s.lower) if s.lower else None
                hi = ev(s.upper) if s.upper else None
                st = ev(s.step) if s.step else None
                return base[lo:hi:st]
            return base[ev(s)]
        if isinstance(node, (ast.Name, ast.Attribute)):
            r = self.resolve_expr(m, node)
            if isinstance(r, tuple) and r[0] == "const":
                _, cm, cnode = r
                val = cnode.value if isinstance(cnode, (ast.Assign, ast.AnnAssign)) else None
                if val is None:
                    raise AnalysisError(f"not a constant: {unparse(node)}")
                return self.const_eval(cm, val, _depth + 1)
            if isinstance(r, tuple) and r[0] == "member":
                _, owner, mem = r
                if mem.attr is not None and getattr(mem.attr, "value", None) is not None:
                    return self.const_eval(owner.module, mem.attr.value, _depth + 1)
        if isinstance(node, ast.Call):
            fn = call_name(node)
            if fn in ("Struct", "struct.Struct") and node.args:
                return ("Struct", ev(node.args[0]))
            if fn in ("bidict", "dict", "tuple", "frozenset", "set", "list", "np.array", "numpy.array", "np.asarray") and len(node.args) >= 1:
                return ev(node.args[0])
            if fn in ("np.sqrt", "math.sqrt", "sqrt", "numpy.sqrt") and len(node.args) == 1:
                return float(ev(node.args[0])) ** 0.5
            if fn in ("float", "int") and len(node.args) == 1:
                return (float if fn == "float" else int)(ev(node.args[0]))
        raise AnalysisError(f"not a literal: {short(node)}")

    def enum_members(self, ci: ClassInfo) -> dict[str, object]:
        out = {}
        for s in ci.node.body:
            if isinstance(s, ast.Assign) and len(s.targets) == 1 and isinstance(s.targets[0], ast.Name):
                try:
                    out[s.targets[0].id] = self.const_eval(ci.module, s.value)
                except AnalysisError:
                    pass
        return out

    # -- attrs / dataclass fields -----------------------------------------
    def fields(self, ci: ClassInfo) -> list[dict]:
        """Ordered field list of an attrs.define / dataclass class (own body only)."""
        out = []
        FIELD_CALLS = ("attrs.field", "field", "attr.ib", "attrs.ib", "dataclasses.field")
        for s in ci.node.body:
            if isinstance(s, ast.Assign) and len(s.targets) == 1 and isinstance(s.targets[0], ast.Name) \
                    and isinstance(s.value, ast.Call) and call_name(s.value) in FIELD_CALLS[:4] and call_name(s.value) != "field":
                # un-annotated attrs.field(): still a field (attrs falls back to auto_attribs=False)
                s = ast.AnnAssign(target=s.targets[0], annotation=ast.Constant(value=None), value=s.value, simple=1, lineno=s.lineno, col_offset=s.col_offset)
            if not (isinstance(s, ast.AnnAssign) and isinstance(s.target, ast.Name)):
                continue
            name = s.target.id
            f = dict(name=name, init=True, default=None, factory=None, converter=None,
                     node=s, alias=name.lstrip("_"), has_default=s.value is not None)
            v = s.value
            if isinstance(v, ast.Call) and call_name(v) in (
                "attrs.field", "field", "attr.ib", "attrs.ib", "dataclasses.field",
            ):
                f["has_default"] = False
                for kw in v.keywords:
                    if kw.arg == "default":
                        f["default"] = kw.value
                        f["has_default"] = True
                    elif kw.arg in ("factory", "default_factory"):
                        f["factory"] = kw.value
                        f["has_default"] = True
                    elif kw.arg == "converter":
                        f["converter"] = kw.value
                    elif kw.arg == "init":
                        f["init"] = not (isinstance(kw.value, ast.Constant) and kw.value.value is False)
                    elif kw.arg == "alias" and isinstance(kw.value, ast.Constant):
                        f["alias"] = kw.value.value
            elif v is not None:
                f["default"] = v
            out.append(f)
        return out


# --------------------------------------------------------------------------
# intra-procedural helpers shared by several rules


def assignments(fn: ast.AST) -> dict[str, list[ast.AST]]:
    """name -> list of value expressions assigned to that local anywhere in fn
    (flow-insensitive; tuple-unpacking recorded as ('unpack', value, index))."""
    out: dict[str, list] = {}

    def bind(t, v):
        if isinstance(t, ast.Name):
            out.setdefault(t.id, []).append(v)
        elif isinstance(t, (ast.Tuple, ast.List)):
            for i, el in enumerate(t.elts):
                if isinstance(v, (ast.Tuple, ast.List)) and len(v.elts) == len(t.elts) and not any(
                    isinstance(x, ast.Starred) for x in t.elts
                ):
                    bind(el, v.elts[i])
                else:
                    bind(el, ("unpack", v, i))
        elif isinstance(t, ast.Starred):
            bind(t.value, v)

    for n in walk_no_nested(fn):
        if isinstance(n, ast.Assign):
            for t in n.targets:
                bind(t, n.value)
        elif isinstance(n, ast.AnnAssign) and n.value is not None:
            bind(n.target, n.value)
        elif isinstance(n, ast.AugAssign):
            bind(n.target, ast.BinOp(left=n.target, op=n.op, right=n.value))
        elif isinstance(n, ast.NamedExpr):
            bind(n.target, n.value)
        elif isinstance(n, (ast.For, ast.AsyncFor)):
            bind(n.target, ("iter", n.iter, None))
        elif isinstance(n, ast.comprehension):
            bind(n.target, ("iter", n.iter, None))
        elif isinstance(n, (ast.With, ast.AsyncWith)):
            for it in n.items:
                if it.optional_vars is not None:
                    bind(it.optional_vars, ("with", it.context_expr, None))
        elif isinstance(n, ast.MatchAs) and n.name:
            out.setdefault(n.name, []).append(("match", n, None))
        elif isinstance(n, ast.MatchStar) and n.name:
            out.setdefault(n.name, []).append(("match", n, None))
    return out


def provenance(fn: ast.AST, expr: ast.AST, params: Iterable[str] = (), _assign=None) -> set[str]:
    """Backward slice of `expr` inside function `fn`, flow-insensitive: the set of
    *source tokens* it may be computed from.  Tokens are dotted attribute chains
    rooted at a non-local name or a parameter (`mol.charge`, `self._eof`),
    parameter names, `const:<repr>` for literals and `call:<dotted>` for calls."""
    asg = _assign if _assign is not None else assignments(fn)
    params = set(params)
    out: set[str] = set()
    seen: set[int] = set()

    def visit(e):
        if isinstance(e, tuple):  # ('unpack'|'iter'|'with'|'match', value, idx)
            tag, v, i = e
            if tag == "match":
                out.add("match")
                return
            visit(v)
            return
        if id(e) in seen:
            return
        seen.add(id(e))
        if isinstance(e, ast.Constant):
            out.add("const:%r" % (e.value,))
            return
        d = dotted(e)
        if d is not None:
            r = d.split(".")[0]
            if r in asg and r not in params:
                if "." in d:
                    out.add("attr:" + d.split(".", 1)[1])
                for v in asg[r]:
                    visit(v)
                return
            out.add(d)
            return
        if isinstance(e, ast.Call):
            fnm = call_name(e)
            if fnm:
                out.add("call:" + fnm)
            elif isinstance(e.func, ast.Attribute):
                out.add("call:." + e.func.attr)
            if isinstance(e.func, ast.Attribute):
                visit(e.func.value)
            for a in e.args:
                visit(a)
            for k in e.keywords:
                visit(k.value)
            return
        if isinstance(e, ast.Attribute):
            out.add("attr:" + e.attr)
            visit(e.value)
            return
        for c in ast.iter_child_nodes(e):
            if isinstance(c, (ast.expr, ast.comprehension, ast.keyword)):
                if isinstance(c, ast.comprehension):
                    visit(c.iter)
                    for i in c.ifs:
                        visit(i)
                elif isinstance(c, ast.keyword):
                    visit(c.value)
                else:
                    visit(c)

    visit(expr)
    return out
