"""
Self-test battery: the checker is run on in-memory variants of the *current*
tree (overlay {path -> edited text}; nothing is written, nothing is executed).

  seeded   an edit that breaks the property and still compiles: the named rule
           must report a new finding
  twin     a behaviour-preserving refactor: no new finding may appear

A variant whose anchor text is not present in the current tree is skipped (the
tree changed); a variant whose expected rule is already failing on the current
tree is reported as masked.  Anything else that deviates means the *checker* is
wrong -> the caller exits 2.
"""
from __future__ import annotations

import importlib
import os
from concurrent.futures import ProcessPoolExecutor

from .core import AnalysisError, Program


def _apply(repo, edits, sources=None):
    overlay = {}
    for ed in edits:
        rel, old, new = ed[0], ed[1], ed[2]
        occ = ed[3] if len(ed) > 3 else 1
        if rel in overlay:
            src = overlay[rel]
        elif sources is not None and rel in sources:
            src = sources[rel]
        else:
            p = os.path.join(repo, rel)
            if not os.path.isfile(p):
                return None
            with open(p, encoding="utf8") as fh:
                src = fh.read()
        idx = -1
        for _ in range(occ):
            idx = src.find(old, idx + 1)
            if idx < 0:
                return None
        src = src[:idx] + new + src[idx + len(old):]
        overlay[rel] = src
    return overlay


def apply_unified_diff(repo, diff_text, sources=None, partial=False):
    """Pure-python application of a unified diff to files under repo (or to the given {rel: text} sources)
    -> overlay {rel: text}, or None if a hunk does not fit."""
    import re

    overlay = {}
    cur = None
    hunks = []
    files = []
    for line in diff_text.splitlines():
        if line.startswith("+++ "):
            path = line[4:].strip()
            cur = path[2:] if path.startswith("b/") else path
            files.append((cur, []))
        elif line.startswith("@@") and files:
            m = re.match(r"@@ -(\d+)(?:,(\d+))? \+(\d+)(?:,(\d+))? @@", line)
            files[-1][1].append(dict(start=int(m.group(1)), lines=[]))
        elif files and files[-1][1] and (line[:1] in (" ", "+", "-") or line == "") and not line.startswith("--- "):
            files[-1][1][-1]["lines"].append(line if line else " ")
    for rel, hs in files:
        if sources is not None and (rel in sources or not partial):
            if rel not in sources:
                return None
            src = sources[rel].split("\n")
        else:
            fp = os.path.join(repo, rel)
            if not os.path.isfile(fp):
                return None
            with open(fp, encoding="utf8") as fh:
                src = fh.read().split("\n")
        shift = 0
        for h in hs:
            old = [l[1:] for l in h["lines"] if l[:1] in (" ", "-")]
            new = [l[1:] for l in h["lines"] if l[:1] in (" ", "+")]
            guess = h["start"] - 1 + shift
            pos = None
            for d in sorted(range(-400, 401), key=abs):
                i = guess + d
                if 0 <= i <= len(src) - len(old) and src[i:i + len(old)] == old:
                    pos = i
                    break
            if pos is None:
                return None
            src[pos:pos + len(old)] = new
            shift += len(new) - len(old) + (pos - guess)
        overlay[rel] = "\n".join(src)
    return overlay


def corpus_variants(prop):
    """The independently seeded changes kept under /verif/seeded that this property's check is on record as catching."""
    import json

    base = os.path.join(os.path.dirname(os.path.dirname(os.path.abspath(__file__))), "seeded")
    out = []
    if not os.path.isdir(base):
        return out
    for sid in sorted(os.listdir(base)):
        mp = os.path.join(base, sid, "meta.json")
        pp = os.path.join(base, sid, "patch.diff")
        if not (os.path.isfile(mp) and os.path.isfile(pp)):
            continue
        with open(mp) as fh:
            meta = json.load(fh)
        caught = meta.get("caught_by", {})
        if isinstance(caught.get(f"{prop}/quick"), dict) and caught[f"{prop}/quick"].get("exit") == 1:
            out.append(dict(id=f"corpus:{sid}", kind="seeded", expect=prop + ".", patch=pp))
    # behaviour-preserving refactorings written by independent agents (seeded/refactors): replayed as twins for the
    # property they were written against and for every property that ever raised an alarm on them
    rbase = os.path.join(base, "refactors")
    # files this property's rules look at (from the last evidence file; falls back to "property it was written for")
    touched_by_prop = set()
    try:
        with open(os.path.join(os.path.dirname(base), "evidence", f"{prop}.json")) as fh:
            for k in json.load(fh)["coverage"].get("functions_analysed", []):
                touched_by_prop.add(k.split(":")[0])
    except Exception:
        pass
    for sid in sorted(os.listdir(rbase)) if os.path.isdir(rbase) else []:
        mp = os.path.join(rbase, sid, "meta.json")
        pp = os.path.join(rbase, sid, "patch.diff")
        if not (os.path.isfile(mp) and os.path.isfile(pp)):
            continue
        with open(mp) as fh:
            meta = json.load(fh)
        with open(pp, encoding="utf8") as fh:
            files = {l[6:].strip() for l in fh if l.startswith("+++ b/")}
        if meta.get("property") == prop or prop in meta.get("first_alarms", {}) or prop in meta.get("alarms", {}) or (files & touched_by_prop):
            # a refactoring the checks are on record as not coping with yet (meta verdict != silent, DESIGN 9.5) is replayed
            # and reported, but it is a documented limit, not a regression of the checker
            out.append(dict(id=f"refactor:{sid}", kind="twin", patch=pp, known_limit=prop in meta.get("alarms", {})))
    return out


def _stale_overlays(repo, patch_path):
    """({rel: text at the patch's base commit}, {rel: that text with the patch applied}) or None"""
    import json
    import subprocess

    mp = os.path.join(os.path.dirname(patch_path), "meta.json")
    try:
        with open(mp) as fh:
            base = json.load(fh).get("base_commit")
        with open(patch_path, encoding="utf8") as fh:
            text = fh.read()
    except Exception:
        return None
    if not base:
        return None
    files = [l[6:].strip() for l in text.splitlines() if l.startswith("+++ b/")]
    srcs = {}
    for rel in files:
        try:
            r = subprocess.run(["git", "-C", repo, "show", f"{base}:{rel}"], capture_output=True, text=True, timeout=30)
        except Exception:
            return None
        if r.returncode != 0:
            return None
        srcs[rel] = r.stdout
    ov = apply_unified_diff(repo, text, sources=srcs)
    if ov is None:
        return None
    return srcs, ov


def head_sources(repo):
    """{rel: text at HEAD} for every tracked file under molli/ that differs from HEAD in the working tree (empty when the tree
    is unmodified or git is not available)."""
    import subprocess

    try:
        r = subprocess.run(["git", "-C", repo, "diff", "--name-only", "HEAD", "--", "molli", "molli_xt"],
                           capture_output=True, text=True, timeout=30)
        if r.returncode != 0:
            return {}
        out = {}
        for rel in r.stdout.split():
            if not (rel.endswith(".py") or rel.endswith(".cpp")):
                continue
            g = subprocess.run(["git", "-C", repo, "show", f"HEAD:{rel}"], capture_output=True, text=True, timeout=30)
            if g.returncode == 0:
                out[rel] = g.stdout
        return out
    except Exception:
        return {}


def _run_variant(args):
    prop, repo, overlay = args
    from .check import run_rules

    try:
        for rel, src in overlay.items():
            if rel.endswith(".py"):
                compile(src, rel, "exec")  # "still compiles"; never executed
    except SyntaxError as e:
        return ("syntax", [], str(e))
    try:
        prog = Program(repo, overlay)
        chk = run_rules(prop, prog, "quick")
        return ("ok", sorted(chk.failure_keys()), " | ".join(chk.refusals))
    except AnalysisError as e:
        return ("analysis-error", [], str(e))
    except Exception as e:  # pragma: no cover
        import traceback

        return ("crash", [], traceback.format_exc(limit=3))


def _prepare(prop, repo, variants, sources):
    """-> (work [(variant, overlay)], results for the variants that cannot be replayed)"""
    work, results = [], []
    for v in variants:
        if "patch" in v:
            with open(v["patch"], encoding="utf8") as fh:
                ov = apply_unified_diff(repo, fh.read(), sources=sources, partial=True)
        else:
            ov = _apply(repo, v["edits"], sources=sources)
        if ov is None and "patch" in v:
            # the change was made against an earlier commit and a later fix touched the same lines: replay it on the files as
            # they were at its own base, and compare with the verdict on those base files (not with today's tree)
            st = _stale_overlays(repo, v["patch"])
            if st is not None:
                base_ov, ov = st
                if sources:
                    base_ov = dict(sources, **base_ov)
                    ov = dict(sources, **ov)
                s0, f0, e0 = _run_variant((prop, repo, base_ov))
                v = dict(v, _own_base=set(tuple(f) for f in f0) if s0 == "ok" else set(), id=v["id"] + "@own-base")
        elif ov is not None and sources:
            ov = dict(sources, **ov)
        if ov is None:
            results.append(dict(id=v["id"], kind=v["kind"], verdict="skipped", detail="anchor text not present in the current tree"))
            continue
        work.append((v, ov))
    return work, results


def _judge(v, base, status, fails, err):
    new = [tuple(f) for f in fails if tuple(f) not in base and tuple(f) not in v.get("_own_base", ())]
    if status == "ok" and err and (not new or v["kind"] == "twin"):
        status = "analysis-error"  # a rule refused and nothing else fired
    exp = v.get("expect")
    bad = False
    if v["kind"] == "seeded":
        if status == "ok" and any(r == exp or r.startswith(exp) for r, _ in new):
            hit = [c for r, c in new if r == exp or r.startswith(exp)][0]
            res = dict(verdict="caught", detail=f"{exp} fired on {hit}")
        elif status == "ok" and any(r == exp for r, _ in base):
            res = dict(verdict="masked", detail=f"{exp} already fails on the current tree")
        elif status == "ok" and new:
            res = dict(verdict="caught-other", detail=f"expected {exp}, fired {sorted({r for r, _ in new})}")
        elif status == "analysis-error" and v.get("allow_error"):
            res = dict(verdict="refused", detail=f"checker refused to decide: {err[:120]}")
        else:
            res = dict(verdict="MISSED", detail=f"status={status} {err[:160]}")
            bad = True
    else:
        if status == "ok" and not new:
            res = dict(verdict="silent", detail="no new finding")
        elif v.get("known_limit"):
            res = dict(verdict="known-limit", detail=f"documented limit (seeded/refactors meta): status={status} new={new[:2]} {err[:120]}")
        else:
            res = dict(verdict="FALSE-ALARM", detail=f"status={status} new={new[:3]} {err[:160]}")
            bad = True
    return dict(id=v["id"], kind=v["kind"], **res), bad


def _evaluate(prop, repo, variants, base, sources, jobs):
    work, results = _prepare(prop, repo, variants, sources)
    if work:
        with ProcessPoolExecutor(max_workers=min(jobs, max(1, len(work)))) as ex:
            outs = list(ex.map(_run_variant, [(prop, repo, ov) for _, ov in work]))
    else:
        outs = []
    broken = []
    for (v, _), (status, fails, err) in zip(work, outs):
        res, bad = _judge(v, base, status, fails, err)
        if bad:
            broken.append(v)
        results.append(res)
    return results, broken


def run_battery(prop, repo, base_failures, seed=0, jobs=16):
    try:
        mod = importlib.import_module(f"sa.variants.{prop.lower()}")
    except ModuleNotFoundError:
        class mod:  # noqa: N801
            VARIANTS = []
    variants = list(mod.VARIANTS) + corpus_variants(prop)
    base = set(base_failures)
    results, broken_v = _evaluate(prop, repo, variants, base, None, jobs)
    broken = [v["id"] for v in broken_v]
    if broken_v:
        # The battery states how the checker behaves on edits of the *committed* tree. When the working tree differs from HEAD
        # (an edit under review), a deviation may come from that edit meeting the variant, not from the checker: replay the
        # deviating variants on the committed sources. Only what deviates there as well is a defect of the checker.
        hs = head_sources(repo)
        if hs:
            s0, f0, e0 = _run_variant((prop, repo, dict(hs)))
            if s0 == "ok" and not e0:
                orig = [v for v in variants if v["id"] in {b.split("@")[0] for b in broken}]
                res2, broken2 = _evaluate(prop, repo, orig, set(tuple(f) for f in f0), hs, jobs)
                still = {v["id"].split("@")[0] for v in broken2}
                for r in results:
                    if r["id"] in broken and r["id"].split("@")[0] not in still:
                        r["detail"] = "not comparable on the modified working tree (as specified on the committed sources); here: " + r["verdict"] + " " + r["detail"]
                        r["verdict"] = "not-comparable"
                broken = [b for b in broken if b.split("@")[0] in still]
    n_seed = sum(1 for r in results if r["kind"] == "seeded")
    n_caught = sum(1 for r in results if r["verdict"] in ("caught", "caught-other"))
    n_twin = sum(1 for r in results if r["kind"] == "twin")
    n_silent = sum(1 for r in results if r["verdict"] == "silent")
    n_skip = sum(1 for r in results if r["verdict"] in ("skipped", "masked"))
    n_lim = sum(1 for r in results if r["verdict"] == "known-limit")
    n_nc = sum(1 for r in results if r["verdict"] == "not-comparable")
    return dict(
        summary=f"{n_caught}/{n_seed} seeded violations caught, {n_silent}/{n_twin} refactor twins silent"
                + (f" ({n_lim} documented limits)" if n_lim else "") + f", {n_skip} skipped/masked"
                + (f", {n_nc} not comparable on the modified working tree" if n_nc else ""),
        results=results,
        broken=broken,
    )
