def run_battery(prop, repo, base_failures, seed):
    return dict(summary="no variants registered yet", results=[], broken=[])
