"""
Canonical forms used by rules that compare code against an expected shape.

A behaviour-preserving edit may
  * name a sub-expression (`dropped = {a1, a2}` ... `a not in dropped`),
  * turn a walrus into a local (`f(nb := Bond(..))` -> `nb = Bond(..); f(nb)`),
  * invert a guard (`if p and q: body`  <->  `if not p or not q: continue` + body),
  * rewrite a negation by De Morgan.
The helpers here undo those spellings so that a rule can state its expectation once.
"""
from __future__ import annotations

import ast
import copy
import dataclasses

from .core import assignments

_INV = {ast.In: ast.NotIn, ast.NotIn: ast.In, ast.Eq: ast.NotEq, ast.NotEq: ast.Eq, ast.Is: ast.IsNot, ast.IsNot: ast.Is,
        ast.Lt: ast.GtE, ast.GtE: ast.Lt, ast.Gt: ast.LtE, ast.LtE: ast.Gt}


def negate(e: ast.AST) -> ast.AST:
    """Logical negation in negation normal form (comparisons inverted, De Morgan applied)."""
    if isinstance(e, ast.UnaryOp) and isinstance(e.op, ast.Not):
        return nnf(e.operand)
    if isinstance(e, ast.BoolOp):
        op = ast.Or() if isinstance(e.op, ast.And) else ast.And()
        return ast.copy_location(ast.BoolOp(op, [negate(v) for v in e.values]), e)
    if isinstance(e, ast.Compare) and len(e.ops) == 1 and type(e.ops[0]) in _INV:
        return ast.copy_location(ast.Compare(e.left, [_INV[type(e.ops[0])]()], e.comparators), e)
    return ast.copy_location(ast.UnaryOp(ast.Not(), e), e)


def expand_quantifiers(e: ast.AST) -> ast.AST:
    """`any(P(x) for x in (a, b))` -> `P(a) or P(b)`, `all(...)` -> and (generator / list comprehension over a literal
    tuple, list or set with one plain loop variable)"""

    class T(ast.NodeTransformer):
        def visit_Call(self, n):
            self.generic_visit(n)
            if isinstance(n.func, ast.Name) and n.func.id in ("any", "all") and len(n.args) == 1 and not n.keywords \
                    and isinstance(n.args[0], (ast.GeneratorExp, ast.ListComp)) and len(n.args[0].generators) == 1:
                g = n.args[0].generators[0]
                if isinstance(g.target, ast.Name) and not g.ifs and isinstance(g.iter, (ast.Tuple, ast.List, ast.Set)) and 1 <= len(g.iter.elts) <= 6:
                    vals = []
                    for el in g.iter.elts:
                        class S(ast.NodeTransformer):
                            def visit_Name(self, m):
                                return copy.deepcopy(el) if m.id == g.target.id and isinstance(m.ctx, ast.Load) else m
                        vals.append(S().visit(copy.deepcopy(n.args[0].elt)))
                    if len(vals) == 1:
                        return vals[0]
                    return ast.copy_location(ast.BoolOp(ast.Or() if n.func.id == "any" else ast.And(), vals), n)
            return n

    return T().visit(copy.deepcopy(e))


def nnf(e: ast.AST) -> ast.AST:
    if isinstance(e, ast.UnaryOp) and isinstance(e.op, ast.Not):
        return negate(e.operand)
    if isinstance(e, ast.BoolOp):
        return ast.copy_location(ast.BoolOp(e.op, [nnf(v) for v in e.values]), e)
    return e


def conjuncts(e: ast.AST) -> list[ast.AST]:
    e = nnf(expand_quantifiers(e))
    if isinstance(e, ast.BoolOp) and isinstance(e.op, ast.And):
        out = []
        for v in e.values:
            out.extend(conjuncts(v))
        return out
    if isinstance(e, ast.Compare) and len(e.ops) > 1:
        # a == b == c  is  a == b and b == c  (the middle operand is evaluated once; the operands we meet are pure)
        out, left = [], e.left
        for op, right in zip(e.ops, e.comparators):
            out.append(ast.copy_location(ast.Compare(left, [op], [right]), e))
            left = right
        return out
    return [e]


class Env:
    """Single-assignment view of a function's locals."""

    def __init__(self, fn: ast.AST, params=()):
        self.fn = fn
        self.asg = assignments(fn)
        self.params = set(params)
        a = getattr(fn, "args", None)
        if a is not None:
            self.params |= {x.arg for x in a.posonlyargs + a.args + a.kwonlyargs}
            if a.vararg:
                self.params.add(a.vararg.arg)
            if a.kwarg:
                self.params.add(a.kwarg.arg)

    def single(self, name: str):
        """The only value ever bound to `name` (an ast node), else None."""
        if name in self.params:
            return None
        vs = self.asg.get(name, [])
        if len(vs) == 1 and isinstance(vs[0], ast.AST):
            return vs[0]
        return None

    def expand(self, e: ast.AST, keep=(), depth: int = 4, at: ast.AST | None = None) -> ast.AST:
        """`e` with every single-assignment local (not in `keep`) replaced by its definition; walrus targets dissolve.
        With `at` (the statement / call where `e` is evaluated) a local that is bound several times is replaced by the
        plain assignment that dominates `at` syntactically (`b = b.evolve(..)` ... `f(b)`), once."""
        keep = set(keep)
        env = self

        class T(ast.NodeTransformer):
            def __init__(self, d, frozen=frozenset()):
                self.d = d
                self.frozen = frozen

            def visit_NamedExpr(self, n):
                return self.visit(n.value)

            def _scoped(self, n):
                # names bound by a comprehension / lambda are not locals of the function
                bound = set()
                if isinstance(n, ast.Lambda):
                    a = n.args
                    bound = {x.arg for x in a.posonlyargs + a.args + a.kwonlyargs} | {x.arg for x in (a.vararg, a.kwarg) if x is not None}
                else:
                    for g in n.generators:
                        bound |= {x.id for x in ast.walk(g.target) if isinstance(x, ast.Name)}
                sub = T(self.d, self.frozen | bound)
                return ast.NodeTransformer.generic_visit(sub, n)

            visit_ListComp = visit_SetComp = visit_DictComp = visit_GeneratorExp = visit_Lambda = _scoped

            def visit_Name(self, n):
                if isinstance(n.ctx, ast.Load) and n.id not in keep and n.id not in self.frozen and self.d > 0:
                    v = env.single(n.id)
                    if v is not None and not any(isinstance(x, ast.Name) and x.id == n.id for x in ast.walk(v)):
                        return T(self.d - 1, self.frozen).visit(copy.deepcopy(v))
                    if v is None and at is not None:  # also a parameter that is re-bound before `at`
                        dv = dominating_def(env.fn, at, n.id)
                        if dv is not None:
                            return T(self.d - 1, self.frozen | {n.id}).visit(copy.deepcopy(dv))
                return n

        return T(depth).visit(copy.deepcopy(e))


def unguard_body(body: list) -> list:
    """[if C: continue, *rest] -> [if not C: rest] (recursively); used on copies only."""
    out = []
    for i, s in enumerate(body):
        if isinstance(s, ast.If) and not s.orelse and len(s.body) == 1 and isinstance(s.body[0], ast.Continue):
            rest = unguard_body(body[i + 1:])
            if rest:
                out.append(ast.copy_location(ast.If(negate(s.test), rest, []), s))
            return out
        out.append(s)
    return out


def structured(f):
    """Copy of Func `f` whose loops use nested `if` instead of `if ...: continue` guard clauses."""
    node = copy.deepcopy(f.node)
    changed = False
    for n in ast.walk(node):
        if isinstance(n, (ast.For, ast.While)):
            nb = unguard_body(n.body)
            if len(nb) != len(n.body) or any(a is not b for a, b in zip(nb, n.body)):
                n.body = nb
                changed = True
    if not changed:
        return f
    ast.fix_missing_locations(node)
    g = dataclasses.replace(f)
    g.node = node
    return g


_ALL_ENDS = (ast.Return, ast.Raise, ast.Continue, ast.Break)


def _ends(blk, kinds=_ALL_ENDS) -> bool:
    """the block cannot complete normally (syntactic): last statement is one of `kinds`, or an if whose both branches end so"""
    if not blk:
        return False
    s = blk[-1]
    if isinstance(s, kinds):
        return True
    if isinstance(s, ast.If):
        return _ends(s.body, kinds) and _ends(s.orelse, kinds)
    return False


def _pattern_test(subject, pat):
    """synthetic test expression for a match pattern (None when it says nothing usable)"""
    if isinstance(pat, ast.MatchAs) and pat.pattern is not None:
        inner = _pattern_test(ast.Name(pat.name, ast.Load()) if pat.name else subject, pat.pattern)
        return inner
    if isinstance(pat, ast.MatchClass):
        return ast.Call(ast.Name("isinstance", ast.Load()), [subject, pat.cls], [])
    if isinstance(pat, ast.MatchValue):
        return ast.Compare(subject, [ast.Eq()], [pat.value])
    if isinstance(pat, ast.MatchSingleton):
        return ast.Compare(subject, [ast.Is()], [ast.Constant(pat.value)])
    if isinstance(pat, ast.MatchOr):
        subs = [_pattern_test(subject, p) for p in pat.patterns]
        if all(s is not None for s in subs):
            return ast.BoolOp(ast.Or(), subs)
    return None


def path_conditions(fn: ast.AST, target: ast.AST, guard_ends=_ALL_ENDS) -> list[ast.AST]:
    """Conjuncts (negation normal form) that hold whenever `target` is reached, as far as the syntax shows: the tests
    of enclosing if / elif / else / while / match-case arms, and the negated tests of earlier guard clauses of the
    same block whose body cannot complete normally (`if not ok: return` ... target)."""
    out: list[ast.AST] = []

    def contains(n):
        return any(x is target for x in ast.walk(n))

    def block(blk):
        for i, s in enumerate(blk):
            if not contains(s):
                continue
            for prev in blk[:i]:
                if isinstance(prev, ast.If):
                    if _ends(prev.body, guard_ends) and not _ends(prev.orelse):
                        out.extend(conjuncts(negate(prev.test)))
                    elif prev.orelse and _ends(prev.orelse, guard_ends) and not _ends(prev.body):
                        out.extend(conjuncts(prev.test))
            stmt(s)
            return

    def stmt(s):
        if s is target:
            return
        if isinstance(s, ast.If):
            if any(contains(b) for b in s.body):
                out.extend(conjuncts(s.test))
                block(s.body)
            elif any(contains(b) for b in s.orelse):
                out.extend(conjuncts(negate(s.test)))
                block(s.orelse)
            return
        if isinstance(s, ast.While) and any(contains(b) for b in s.body):
            out.extend(conjuncts(s.test))
            block(s.body)
            return
        if isinstance(s, ast.Match):
            for c in s.cases:
                if any(contains(b) for b in c.body):
                    t = _pattern_test(s.subject, c.pattern)
                    if t is not None:
                        out.extend(conjuncts(t))
                    if c.guard is not None:
                        out.extend(conjuncts(c.guard))
                    block(c.body)
                    return
            return
        for fld in ("body", "orelse", "finalbody"):
            b = getattr(s, fld, None)
            if isinstance(b, list) and b and isinstance(b[0], ast.stmt) and any(contains(x) for x in b):
                block(b)
                return
        if isinstance(s, ast.Try):
            for h in s.handlers:
                if any(contains(x) for x in h.body):
                    block(h.body)
                    return

    block(getattr(fn, "body", []))
    return out


# ---------------------------------------------------------------------------
# canonical local names by role


def local_by_value(pred):
    """finder: the unique local one of whose assigned values satisfies pred(value_ast)."""

    def find(asg, fn):
        hits = [nm for nm, vals in asg.items() if any(isinstance(v, ast.AST) and pred(v) for v in vals)]
        return hits[0] if len(hits) == 1 else None

    return find


def local_stored_to(path: str):
    """finder: the unique local that is the whole right-hand side of an assignment to `path` (e.g. 'self._last')."""

    def find(asg, fn):
        hits = set()
        for s in ast.walk(fn):
            if isinstance(s, ast.Assign) and isinstance(s.value, ast.Name) and any(ast.unparse(t) == path for t in s.targets):
                hits.add(s.value.id)
        return hits.pop() if len(hits) == 1 else None

    return find


def local_unpacked_from(src_role: str, index: int):
    """finder: the local bound to element `index` when the local playing `src_role` is tuple-unpacked."""

    def find(asg, fn, resolved=None):
        src = (resolved or {}).get(src_role)
        if src is None:
            return None
        hits = set()
        for s in ast.walk(fn):
            if isinstance(s, ast.Assign) and isinstance(s.value, ast.Name) and s.value.id == src and isinstance(s.targets[0], ast.Tuple) \
                    and len(s.targets[0].elts) > index and isinstance(s.targets[0].elts[index], ast.Name):
                hits.add(s.targets[0].elts[index].id)
        return hits.pop() if len(hits) == 1 else None

    find.needs_resolved = True
    return find


def local_passed_to(func_text: str, index: int):
    """finder: the unique local handed as positional argument `index` to calls of `func_text` (e.g. 'Molecule', 'self._parse_bond')"""

    def find(asg, fn):
        hits = set()
        for c in ast.walk(fn):
            if isinstance(c, ast.Call) and ast.unparse(c.func) == func_text and len(c.args) > index and isinstance(c.args[index], ast.Name):
                hits.add(c.args[index].id)
        return hits.pop() if len(hits) == 1 else None

    return find


def local_passed_as(func_suffix: str, kw: str):
    """finder: the unique local handed as keyword argument `kw` to calls of a function whose dotted name ends in `func_suffix`"""

    def find(asg, fn):
        hits = set()
        for c in ast.walk(fn):
            if isinstance(c, ast.Call) and (ast.unparse(c.func) == func_suffix or ast.unparse(c.func).endswith("." + func_suffix)):
                for k in c.keywords:
                    if k.arg == kw and isinstance(k.value, ast.Name):
                        hits.add(k.value.id)
        return hits.pop() if len(hits) == 1 else None

    return find


def local_none_then_loop_index():
    """finder: the unique local that is bound to None outside every loop and, inside a for-loop under an `if`, to the loop's
    counter (`fail = None` ... `for i, .. in enumerate(..): if <..>: fail = i`) - the recorded position of the first failure"""

    def find(asg, fn):
        hits = set()
        for loop in ast.walk(fn):
            if not isinstance(loop, ast.For):
                continue
            counters = {x.id for x in ast.walk(loop.target) if isinstance(x, ast.Name)}
            for g in ast.walk(loop):
                if isinstance(g, ast.If):
                    for s in g.body:
                        if isinstance(s, ast.Assign) and len(s.targets) == 1 and isinstance(s.targets[0], ast.Name) \
                                and isinstance(s.value, ast.Name) and s.value.id in counters:
                            nm = s.targets[0].id
                            if any(isinstance(v, ast.Constant) and v.value is None for v in asg.get(nm, []) if isinstance(v, ast.AST)):
                                hits.add(nm)
        return hits.pop() if len(hits) == 1 else None

    return find


def loop_var_over(text: str):
    """finder: the variable(s) that range over `text` in for-loops / comprehensions (`for x in T`, `for i, x in enumerate(T)`)"""

    def find(asg, fn):
        hits = set()
        for n in ast.walk(fn):
            if isinstance(n, (ast.For, ast.comprehension)):
                it, tg = n.iter, n.target
                if isinstance(it, ast.Call) and isinstance(it.func, ast.Name) and it.func.id == "enumerate" and it.args and ast.unparse(it.args[0]) == text \
                        and isinstance(tg, ast.Tuple) and len(tg.elts) == 2 and isinstance(tg.elts[1], ast.Name):
                    hits.add(tg.elts[1].id)
                elif ast.unparse(it) == text and isinstance(tg, ast.Name):
                    hits.add(tg.id)
        return hits or None

    return find


def dissolve_aliases(fn_node, pred):
    """Copy of the function in which every local bound exactly once, to a place expression accepted by `pred`
    (e.g. `atom = res.atoms[i]`), is replaced by that expression wherever it is used; the binding is dropped."""
    asg = assignments(fn_node)
    a = fn_node.args
    params = {x.arg for x in a.posonlyargs + a.args + a.kwonlyargs}
    al = {}
    for nm, vals in asg.items():
        if nm in params or len(vals) != 1 or not isinstance(vals[0], ast.AST):
            continue
        v = vals[0]
        if isinstance(v, (ast.Subscript, ast.Attribute)) and pred(v):
            al[nm] = v
    if not al:
        return fn_node
    node = copy.deepcopy(fn_node)

    class T(ast.NodeTransformer):
        def visit_Name(self, n):
            if n.id in al and isinstance(n.ctx, ast.Load):
                return ast.copy_location(copy.deepcopy(al[n.id]), n)
            return n

        def visit_Assign(self, s):
            if len(s.targets) == 1 and isinstance(s.targets[0], ast.Name) and s.targets[0].id in al:
                return None
            self.generic_visit(s)
            return s

    T().visit(node)
    for n in ast.walk(node):  # a block may have lost its only statement
        for fld in ("body", "orelse", "finalbody"):
            b = getattr(n, fld, None)
            if isinstance(b, list) and not b and fld == "body":
                b.append(ast.Pass())
    ast.fix_missing_locations(node)
    return node


def rename_roles(f, finders: dict):
    """Copy of Func `f` whose locals are renamed to the canonical role names (keys of `finders`).
    Roles that cannot be identified, or whose canonical name is taken by another local, are left alone."""
    node = rename_roles_node(f.node, finders)
    if node is f.node:
        return f
    g = dataclasses.replace(f)
    g.node = node
    return g


def rename_roles_node(fn_node, finders: dict):
    class _F:
        node = fn_node

    f = _F()
    asg = assignments(f.node)
    a = f.node.args
    params = {x.arg for x in a.posonlyargs + a.args + a.kwonlyargs}
    actual: dict[str, str] = {}
    for canon_name, fd in finders.items():
        nm = fd(asg, f.node, actual) if getattr(fd, "needs_resolved", False) else fd(asg, f.node)
        if isinstance(nm, set):
            nm = {x for x in nm if x not in params}
            if nm:
                actual[canon_name] = nm
        elif nm is not None and nm not in params:
            actual[canon_name] = nm
    ren = {}
    for can, act in actual.items():
        for one in (act if isinstance(act, set) else {act}):
            if one != can:
                ren[one] = can
    actual = {can: (sorted(act)[0] if isinstance(act, set) else act) for can, act in actual.items()}
    if not ren:
        return fn_node
    used = {n.id for n in ast.walk(f.node) if isinstance(n, ast.Name)} | params
    for act, can in list(ren.items()):
        if can in used and can not in ren:  # canonical name already means something else
            del ren[act]
    if not ren:
        return fn_node
    node = copy.deepcopy(f.node)
    for n in ast.walk(node):
        if isinstance(n, ast.Name) and n.id in ren:
            n.id = ren[n.id]
    return node


# ---------------------------------------------------------------------------
# match statement -> if / elif chain (the opposite of normalize.matchify), for rules written against if-chains


def ifchain(f, subjects=None):
    """Copy of Func `f` in which `match S:` statements made only of value / class / or / wildcard patterns (no
    captures, no guards) read as `if S == v: ... elif isinstance(S, C): ... else: ...`.  `subjects`: restrict to
    these subject texts (None = every convertible match)."""
    node = copy.deepcopy(f.node)
    changed = False

    def test_of(subj, pat):
        if isinstance(pat, ast.MatchValue):
            return ast.Compare(copy.deepcopy(subj), [ast.Eq()], [pat.value])
        if isinstance(pat, ast.MatchSingleton):
            return ast.Compare(copy.deepcopy(subj), [ast.Is()], [ast.Constant(pat.value)])
        if isinstance(pat, ast.MatchClass) and not pat.patterns and not pat.kwd_patterns:
            return ast.Call(ast.Name("isinstance", ast.Load()), [copy.deepcopy(subj), pat.cls], [])
        if isinstance(pat, ast.MatchOr):
            subs = [test_of(subj, p) for p in pat.patterns]
            if any(s is None for s in subs):
                return None
            if all(isinstance(p, ast.MatchValue) for p in pat.patterns):
                return ast.Compare(copy.deepcopy(subj), [ast.In()], [ast.Tuple([p.value for p in pat.patterns], ast.Load())])
            if all(isinstance(p, ast.MatchClass) for p in pat.patterns):
                return ast.Call(ast.Name("isinstance", ast.Load()), [copy.deepcopy(subj), ast.Tuple([p.cls for p in pat.patterns], ast.Load())], [])
            return ast.BoolOp(ast.Or(), subs)
        return None

    def convert(m: ast.Match):
        if subjects is not None and ast.unparse(m.subject) not in subjects:
            return None
        arms, default = [], None
        for i, c in enumerate(m.cases):
            if c.guard is not None:
                return None
            if isinstance(c.pattern, ast.MatchAs) and c.pattern.pattern is None and c.pattern.name is None:
                if i != len(m.cases) - 1:
                    return None
                default = c.body
                continue
            t = test_of(m.subject, c.pattern)
            if t is None:
                return None
            arms.append((t, c.body))
        if not arms:
            return None
        chain = list(default) if default else []
        for t, body in reversed(arms):
            new = ast.If(t, list(body), chain)
            ast.copy_location(new, body[0] if body else m)
            for n in ast.walk(t):
                if not hasattr(n, "lineno"):
                    ast.copy_location(n, m)
            chain = [new]
        ast.copy_location(chain[0], m)
        return chain[0]

    def rewrite(blk):
        nonlocal changed
        for i, s in enumerate(blk):
            if isinstance(s, ast.Match):
                r = convert(s)
                if r is not None:
                    blk[i] = r
                    s = r
                    changed = True
            for fld in ("body", "orelse", "finalbody"):
                b = getattr(s, fld, None)
                if isinstance(b, list) and b and isinstance(b[0], ast.stmt) and not isinstance(s, (ast.FunctionDef, ast.AsyncFunctionDef, ast.ClassDef)):
                    rewrite(b)
            if isinstance(s, ast.Try):
                for h in s.handlers:
                    rewrite(h.body)
            if isinstance(s, ast.Match):
                for c in s.cases:
                    rewrite(c.body)

    rewrite(node.body)
    if not changed:
        return f
    ast.fix_missing_locations(node)
    g = dataclasses.replace(f)
    g.node = node
    return g


def strip_walrus(e: ast.AST) -> ast.AST:
    """`(x := f()) is None` -> `x is None` (what the condition says about x afterwards)"""

    class T(ast.NodeTransformer):
        def visit_NamedExpr(self, n):
            return ast.copy_location(ast.Name(n.target.id, ast.Load()), n)

    return T().visit(copy.deepcopy(e))


def sink_tail(f, is_chain_test):
    """Copy of Func `f` in which the statements that follow an if / elif / else chain (whose first test satisfies
    `is_chain_test`) up to the end of its block are copied into every branch that can complete normally:
        if c1: A  elif c2: B  else: raise;  T      ==>      if c1: A; T  elif c2: B; T  else: raise
    so that a rule that inspects each branch sees the shared tail as part of it."""
    node = copy.deepcopy(f.node)
    changed = False

    def branches(s):
        out = []
        cur = s
        while True:
            out.append((cur, "body"))
            if len(cur.orelse) == 1 and isinstance(cur.orelse[0], ast.If):
                cur = cur.orelse[0]
                continue
            out.append((cur, "orelse"))
            return out

    def rewrite(blk):
        nonlocal changed
        for i, s in enumerate(blk):
            if isinstance(s, ast.If) and is_chain_test(s.test) and i + 1 < len(blk):
                tail = blk[i + 1:]
                for owner, fld in branches(s):
                    b = getattr(owner, fld)
                    if fld == "orelse" and not b:
                        owner.orelse = copy.deepcopy(tail)
                    elif not _ends(b):
                        b.extend(copy.deepcopy(tail))
                del blk[i + 1:]
                changed = True
            for fld in ("body", "orelse", "finalbody"):
                b = getattr(s, fld, None)
                if isinstance(b, list) and b and isinstance(b[0], ast.stmt) and not isinstance(s, (ast.FunctionDef, ast.AsyncFunctionDef, ast.ClassDef)):
                    rewrite(b)
            if isinstance(s, ast.Try):
                for h in s.handlers:
                    rewrite(h.body)
            if isinstance(s, ast.Match):
                for c in s.cases:
                    rewrite(c.body)
            if changed and i + 1 >= len(blk):
                break

    rewrite(node.body)
    if not changed:
        return f
    ast.fix_missing_locations(node)
    g = dataclasses.replace(f)
    g.node = node
    return g


def dominating_def(fn: ast.AST, site: ast.AST, name: str):
    """The value of the plain assignment `name = <value>` that dominates `site` syntactically: the nearest earlier
    statement, in the block of `site` or an enclosing block, that binds `name`.  None when that binding is not a plain
    assignment or hides inside a compound statement (then the value is not determined by position alone)."""

    def binds(s):
        for n in ast.walk(s):
            if isinstance(n, ast.Name) and n.id == name and isinstance(n.ctx, (ast.Store, ast.Del)):
                return True
        return False

    def search(blk):
        for i, s in enumerate(blk):
            if any(x is site for x in ast.walk(s)):
                r = None
                for fld in ("body", "orelse", "finalbody"):
                    b = getattr(s, fld, None)
                    if isinstance(b, list) and b and isinstance(b[0], ast.stmt) and any(x is site for y in b for x in ast.walk(y)):
                        r = search(b)
                if isinstance(s, ast.Try):
                    for h in s.handlers:
                        if any(x is site for y in h.body for x in ast.walk(y)):
                            r = search(h.body)
                if isinstance(s, ast.Match):
                    for c in s.cases:
                        if any(x is site for y in c.body for x in ast.walk(y)):
                            r = search(c.body)
                if r is not None:
                    return r
                if isinstance(s, (ast.For, ast.While)) and binds(s):
                    return ("unknown",)
                for prev in reversed(blk[:i]):
                    if binds(prev):
                        if isinstance(prev, ast.Assign) and len(prev.targets) == 1 and isinstance(prev.targets[0], ast.Name):
                            return ("value", prev.value)
                        return ("unknown",)
                return None
        return None

    r = search(getattr(fn, "body", []))
    if r is not None and r[0] == "value":
        return r[1]
    return None


def lift_ifexp_calls(f, callee_names):
    """Copy of Func `f` in which a statement `g(A if T else B)` (g in callee_names, sole argument a conditional
    expression) reads `if T: g(A)  else: g(B)`."""
    node = copy.deepcopy(f.node)
    changed = False

    def rewrite(blk):
        nonlocal changed
        for i, s in enumerate(blk):
            if isinstance(s, ast.Expr) and isinstance(s.value, ast.Call) and ast.unparse(s.value.func) in callee_names \
                    and len(s.value.args) == 1 and not s.value.keywords and isinstance(s.value.args[0], ast.IfExp):
                ie = s.value.args[0]
                a = ast.Expr(ast.Call(s.value.func, [ie.body], []))
                b = ast.Expr(ast.Call(copy.deepcopy(s.value.func), [ie.orelse], []))
                new = ast.If(ie.test, [a], [b])
                for n in ast.walk(new):
                    if not hasattr(n, "lineno"):
                        ast.copy_location(n, s)
                blk[i] = ast.copy_location(new, s)
                changed = True
                continue
            for fld in ("body", "orelse", "finalbody"):
                b_ = getattr(s, fld, None)
                if isinstance(b_, list) and b_ and isinstance(b_[0], ast.stmt) and not isinstance(s, (ast.FunctionDef, ast.AsyncFunctionDef, ast.ClassDef)):
                    rewrite(b_)
            if isinstance(s, ast.Try):
                for h in s.handlers:
                    rewrite(h.body)
            if isinstance(s, ast.Match):
                for c in s.cases:
                    rewrite(c.body)

    rewrite(node.body)
    if not changed:
        return f
    ast.fix_missing_locations(node)
    g = dataclasses.replace(f)
    g.node = node
    return g


def dissolve_pure_temps(f):
    """Copy of Func `f` in which a local that is bound exactly once to a call-free arithmetic expression over names
    (`next_dist = dist + 1`) is replaced by that expression where it is used, when every use lies in the block of the
    binding (after it) and no name of the expression is rebound there."""
    node = copy.deepcopy(f.node)
    changed = False
    a = node.args
    params = {x.arg for x in a.posonlyargs + a.args + a.kwonlyargs}
    stores: dict[str, int] = {}
    for n in ast.walk(node):
        if isinstance(n, ast.Name) and isinstance(n.ctx, (ast.Store, ast.Del)):
            stores[n.id] = stores.get(n.id, 0) + 1

    def pure(e):
        return all(isinstance(x, (ast.BinOp, ast.UnaryOp, ast.Name, ast.Constant, ast.operator, ast.unaryop, ast.expr_context)) for x in ast.walk(e)) \
            and isinstance(e, (ast.BinOp, ast.UnaryOp))

    def blocks(n):
        for fld in ("body", "orelse", "finalbody"):
            b = getattr(n, fld, None)
            if isinstance(b, list) and b and isinstance(b[0], ast.stmt):
                yield b
        if isinstance(n, ast.Try):
            for h in n.handlers:
                yield h.body
        if isinstance(n, ast.Match):
            for c in n.cases:
                yield c.body

    def walk_blocks(n):
        for b in blocks(n):
            yield b
            for s in b:
                if not isinstance(s, (ast.FunctionDef, ast.AsyncFunctionDef, ast.ClassDef)):
                    yield from walk_blocks(s)

    for blk in list(walk_blocks(node)):
        i = 0
        while i < len(blk):
            s = blk[i]
            if isinstance(s, ast.Assign) and len(s.targets) == 1 and isinstance(s.targets[0], ast.Name) and stores.get(s.targets[0].id) == 1 \
                    and s.targets[0].id not in params and pure(s.value):
                x = s.targets[0].id
                rhs_names = {n.id for n in ast.walk(s.value) if isinstance(n, ast.Name)}
                rest = blk[i + 1:]
                uses_in_rest = sum(1 for r in rest for n in ast.walk(r) if isinstance(n, ast.Name) and n.id == x)
                uses_total = sum(1 for n in ast.walk(node) if isinstance(n, ast.Name) and n.id == x) - 1
                rebound = any(isinstance(n, ast.Name) and n.id in rhs_names and isinstance(n.ctx, (ast.Store, ast.Del)) for r in rest for n in ast.walk(r))
                if uses_in_rest == uses_total and not rebound and x not in rhs_names:
                    class T(ast.NodeTransformer):
                        def visit_Name(self, n):
                            return ast.copy_location(copy.deepcopy(s.value), n) if n.id == x and isinstance(n.ctx, ast.Load) else n
                    for k in range(i + 1, len(blk)):
                        blk[k] = T().visit(blk[k])
                    del blk[i]
                    changed = True
                    continue
            i += 1
    if not changed:
        return f
    ast.fix_missing_locations(node)
    g = dataclasses.replace(f)
    g.node = node
    return g


def search_loops(f):
    """Copy of Func `f` in which `return any(P(x) for x in IT)` reads `for x in IT: if P(x): return True` / `return False`
    (and `return all(...)` correspondingly)."""
    node = copy.deepcopy(f.node)
    changed = False
    for blk in [b for n in ast.walk(node) for b in ([n.body] if isinstance(getattr(n, "body", None), list) else [])
                + ([n.orelse] if isinstance(getattr(n, "orelse", None), list) else [])]:
        for i, s in enumerate(blk):
            if isinstance(s, ast.Return) and isinstance(s.value, ast.Call) and isinstance(s.value.func, ast.Name) and s.value.func.id in ("any", "all") \
                    and len(s.value.args) == 1 and isinstance(s.value.args[0], (ast.GeneratorExp, ast.ListComp)) and len(s.value.args[0].generators) == 1:
                g = s.value.args[0].generators[0]
                is_any = s.value.func.id == "any"
                test = s.value.args[0].elt if is_any else negate(s.value.args[0].elt)
                inner = [ast.If(test, [ast.Return(ast.Constant(is_any))], [])]
                for c in reversed(g.ifs):
                    inner = [ast.If(c, inner, [])]
                loop = ast.For(g.target, g.iter, inner, [], None)
                tail = ast.Return(ast.Constant(not is_any))
                for n in list(ast.walk(loop)) + [tail]:
                    ast.copy_location(n, s)
                blk[i : i + 1] = [loop, tail]
                changed = True
                break
    if not changed:
        return f
    ast.fix_missing_locations(node)
    g2 = dataclasses.replace(f)
    g2.node = node
    return g2


def additive_terms(e: ast.AST) -> list[tuple[int, str]]:
    """signed terms of a sum / difference, order-free: `4 - abs(x) - y` -> [(-1,'abs(x)'), (-1,'y'), (1,'4')]"""
    out = []

    def walk(x, sign):
        if isinstance(x, ast.BinOp) and isinstance(x.op, (ast.Add, ast.Sub)):
            walk(x.left, sign)
            walk(x.right, sign if isinstance(x.op, ast.Add) else -sign)
        elif isinstance(x, ast.UnaryOp) and isinstance(x.op, ast.USub):
            walk(x.operand, -sign)
        elif isinstance(x, ast.UnaryOp) and isinstance(x.op, ast.UAdd):
            walk(x.operand, sign)
        else:
            out.append((sign, ast.unparse(x)))

    walk(e, 1)
    return sorted(out)


def _lift_ifexp_stmt(s):
    """`x = A if T else B` -> `if T: x = A  else: x = B` (None when s is not of that form)"""
    if isinstance(s, ast.Assign) and isinstance(s.value, ast.IfExp):
        a = ast.copy_location(ast.Assign(copy.deepcopy(s.targets), s.value.body), s)
        b = ast.copy_location(ast.Assign(copy.deepcopy(s.targets), s.value.orelse), s)
        return ast.copy_location(ast.If(s.value.test, [a], [b]), s)
    return None


def lift_ifexp_assign(f):
    """Copy of Func `f` in which every assignment of a conditional expression is an if / else statement."""
    node = copy.deepcopy(f.node)
    changed = False

    def rewrite(blk):
        nonlocal changed
        for i, s in enumerate(blk):
            while True:
                r = _lift_ifexp_stmt(blk[i])
                if r is None:
                    break
                blk[i] = r
                changed = True
            s = blk[i]
            for fld in ("body", "orelse", "finalbody"):
                b = getattr(s, fld, None)
                if isinstance(b, list) and b and isinstance(b[0], ast.stmt) and not isinstance(s, (ast.FunctionDef, ast.AsyncFunctionDef, ast.ClassDef)):
                    rewrite(b)
            if isinstance(s, ast.Try):
                for h in s.handlers:
                    rewrite(h.body)
            if isinstance(s, ast.Match):
                for c in s.cases:
                    rewrite(c.body)

    rewrite(node.body)
    if not changed:
        return f
    ast.fix_missing_locations(node)
    g = dataclasses.replace(f)
    g.node = node
    return g


def specialize(stmts, var, val, consts):
    """the statements as they run when `var == val`: tests on `var` against constants / constant sets are decided, the branch
    not taken is dropped, what follows a statement that always leaves is dropped (copies; the input is not modified)"""
    import copy as _copy

    def ev(t):
        if isinstance(t, ast.Name) and t.id == var and isinstance(val, bool):
            return val
        if isinstance(t, ast.Compare) and len(t.ops) == 1 and isinstance(t.left, ast.Name) and t.left.id == var:
            r = t.comparators[0]
            op = t.ops[0]
            if isinstance(r, ast.Constant) and isinstance(op, (ast.Eq, ast.NotEq)):
                return (val == r.value) if isinstance(op, ast.Eq) else (val != r.value)
            if isinstance(r, ast.Constant) and r.value is None and isinstance(op, (ast.Is, ast.IsNot)):
                return (val is None) if isinstance(op, ast.Is) else (val is not None)
            if isinstance(op, (ast.In, ast.NotIn)):
                s = None
                if isinstance(r, (ast.Tuple, ast.List, ast.Set)) and all(isinstance(e, ast.Constant) for e in r.elts):
                    s = {e.value for e in r.elts}
                elif isinstance(r, ast.Name) and r.id in consts:
                    s = consts[r.id]
                if s is not None:
                    return (val in s) if isinstance(op, ast.In) else (val not in s)
        if isinstance(t, ast.UnaryOp) and isinstance(t.op, ast.Not):
            v = ev(t.operand)
            return None if v is None else not v
        if isinstance(t, ast.BoolOp):
            vs = [ev(v) for v in t.values]
            if isinstance(t.op, ast.And):
                return False if any(v is False for v in vs) else (True if all(v is True for v in vs) else None)
            return True if any(v is True for v in vs) else (False if all(v is False for v in vs) else None)
        return None

    def ends(blk):
        return bool(blk) and (isinstance(blk[-1], (ast.Return, ast.Raise, ast.Continue, ast.Break))
                              or (isinstance(blk[-1], ast.If) and ends(blk[-1].body) and ends(blk[-1].orelse))
                              or (isinstance(blk[-1], ast.With) and ends(blk[-1].body)))

    out = []
    for s in stmts:
        if isinstance(s, ast.If):
            v = ev(s.test)
            if v is True:
                out.extend(specialize(s.body, var, val, consts))
            elif v is False:
                out.extend(specialize(s.orelse, var, val, consts))
            else:
                n = _copy.copy(s)
                n.body = specialize(s.body, var, val, consts) or [ast.copy_location(ast.Pass(), s)]
                n.orelse = specialize(s.orelse, var, val, consts)
                out.append(n)
        elif isinstance(s, ast.Match) and isinstance(s.subject, ast.Name) and s.subject.id == var:
            for c in s.cases:
                lits = [p.value.value for p in ast.walk(c.pattern) if isinstance(p, ast.MatchValue) and isinstance(p.value, ast.Constant)]
                if val in lits or (isinstance(c.pattern, ast.MatchAs) and c.pattern.pattern is None and c.guard is None):
                    out.extend(specialize(c.body, var, val, consts))
                    break
        elif isinstance(s, (ast.With, ast.For, ast.While)):
            n = _copy.copy(s)
            n.body = specialize(s.body, var, val, consts) or [ast.copy_location(ast.Pass(), s)]
            out.append(n)
        elif isinstance(s, ast.Try):
            n = _copy.copy(s)
            n.body = specialize(s.body, var, val, consts) or [ast.copy_location(ast.Pass(), s)]
            out.append(n)
        elif isinstance(s, (ast.Return, ast.Assign, ast.Expr)) and isinstance(getattr(s, "value", None), ast.IfExp) and ev(s.value.test) is not None:
            n = _copy.copy(s)
            n.value = s.value.body if ev(s.value.test) else s.value.orelse
            out.append(n)
        else:
            out.append(s)
        if ends(out):
            break
    return out


def ifexp_assignments(f):
    """Copy of Func `f` in which an `if T: x = A [; y = C] else: x = B [; y = D]` whose arms only bind the same plain names
    becomes `x = A if T else B [; y = C if T else D]` (bottom-up, so nested decisions fold), and `x = B; if T: x = A` becomes
    `x = A if T else B`.  A value decided by control flow is then an expression that `Env.expand` can spell out.  Only for
    tests without calls other than the pure builtins (the test is evaluated once per bound name)."""
    node = copy.deepcopy(f.node)
    changed = False
    PURE = {"set", "frozenset", "len", "bool", "isinstance", "any", "all", "sorted", "list", "tuple", "int", "str"}

    def pure(t):
        for c in ast.walk(t):
            if isinstance(c, ast.Call):
                fn = c.func
                if isinstance(fn, ast.Name) and fn.id in PURE:
                    continue
                if isinstance(fn, ast.Attribute) and fn.attr in ("difference", "issubset", "issuperset", "intersection", "union", "symmetric_difference", "keys", "isdisjoint", "is_file", "exists"):
                    continue
                return False
            if isinstance(c, (ast.NamedExpr, ast.Await, ast.Yield, ast.YieldFrom)):
                return False
        return True

    def binds(arm):
        """{name: value} when the arm is a run of `name = value` statements (each name once), else None"""
        out = {}
        for s in arm:
            if isinstance(s, ast.Assign) and len(s.targets) == 1 and isinstance(s.targets[0], ast.Name) and s.targets[0].id not in out:
                out[s.targets[0].id] = s.value
            elif isinstance(s, ast.AnnAssign) and isinstance(s.target, ast.Name) and s.value is not None and s.target.id not in out:
                out[s.target.id] = s.value
            else:
                return None
        # a later value must not read an earlier name of the same arm (the fold evaluates them independently)
        names = set(out)
        for k, v in out.items():
            if any(isinstance(x, ast.Name) and x.id in names for x in ast.walk(v)):
                return None
        return out

    def rewrite(blk):
        nonlocal changed
        for s in blk:
            for fld in ("body", "orelse", "finalbody"):
                sub = getattr(s, fld, None)
                if isinstance(sub, list) and sub and isinstance(sub[0], ast.stmt):
                    rewrite(sub)
            for h in getattr(s, "handlers", []) or []:
                rewrite(h.body)
            for c in getattr(s, "cases", []) or []:
                rewrite(c.body)
        i = 0
        while i < len(blk):
            s = blk[i]
            if isinstance(s, ast.If) and pure(s.test):
                a = binds(s.body)
                b = binds(s.orelse) if s.orelse else None
                if a and b and set(a) == set(b) and not any(isinstance(x, ast.Name) and x.id in a for x in ast.walk(s.test)):
                    new = [ast.copy_location(ast.Assign([ast.Name(k, ast.Store())], ast.IfExp(copy.deepcopy(s.test), a[k], b[k])), s) for k in a]
                    blk[i:i + 1] = new
                    changed = True
                    i += len(new)
                    continue
                if a and not s.orelse and len(a) == 1 and i > 0:
                    (k, v), = a.items()
                    p = blk[i - 1]
                    if isinstance(p, ast.Assign) and len(p.targets) == 1 and isinstance(p.targets[0], ast.Name) and p.targets[0].id == k \
                            and not any(isinstance(x, ast.Name) and x.id == k for x in ast.walk(s.test)):
                        blk[i - 1:i + 1] = [ast.copy_location(ast.Assign([ast.Name(k, ast.Store())], ast.IfExp(copy.deepcopy(s.test), v, p.value)), s)]
                        changed = True
                        continue
            i += 1

    rewrite(node.body)
    if not changed:
        return f
    ast.fix_missing_locations(node)
    g = dataclasses.replace(f)
    g.node = node
    return g
