#!/venv/bin/python
"""tools_view.py <patch.diff|-> <module:qualname> [kind] : print the normalised view (what the rules see) of a function, with the patch laid over TRY_REPO"""
import ast, os, sys
sys.path.insert(0, os.path.dirname(os.path.abspath(__file__)))
from sa.core import Program
from sa.selftest import apply_unified_diff
BASE = os.environ.get("TRY_REPO", "/repo")
ov = None if sys.argv[1] == "-" else apply_unified_diff(BASE, open(sys.argv[1]).read())
p = Program(BASE, ov)
f = p.func(sys.argv[2], sys.argv[3] if len(sys.argv) > 3 else "func")
t = ast.unparse(f.node)
if '"""' in t:
    t = t[:t.index('"""')] + '...' + t[t.rindex('"""') + 3:]
print(t)
print("# inliner log:", p.inliner.log)
print("# residual:", p.inliner.residual)
