#!/bin/bash
# usage: tools_applyfix.sh <patchfile> "<commit message>"   (applies to /repo, runs baseline, commits; reverts on failure)
cd /repo
if [ -n "$(git status --porcelain)" ]; then echo "/repo not clean - refusing"; exit 1; fi
git apply "$1" || exit 1
for attempt in 1 2 3; do
  /venv/bin/python -m pytest -q -rf -p no:cacheprovider --timeout=900 --continue-on-collection-errors > /tmp/_fix_test.log 2>&1 || true
  tail -1 /tmp/_fix_test.log
  bad=$(grep '^FAILED' /tmp/_fix_test.log | grep -v -E 'test_conformer_to_lib|test_ensemble_lib|test_load_all|test_loads_all' || true)
  npass=$(tail -1 /tmp/_fix_test.log | sed -E 's/.* ([0-9]+) passed.*/\1/')
  if [ -z "$bad" ] && [ "$npass" -ge 81 ]; then break; fi
  echo "attempt $attempt: unexpected: $bad"
done
if [ -n "$bad" ] || [ "$npass" -lt 81 ]; then echo "UNEXPECTED TEST RESULT - reverting"; git checkout -- .; exit 1; fi
git add -A molli
git commit -q -m "$2"
git log --oneline | head -1
rm -f /tmp/_fix_test.log
