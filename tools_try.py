#!/venv/bin/python
"""tools_try.py <patch.diff> [PROP ...] : run rules in memory on /repo + patch (no files touched)."""
import sys, json, os
sys.path.insert(0, os.path.dirname(os.path.abspath(__file__)))
from sa.core import Program, AnalysisError
from sa.selftest import apply_unified_diff
from sa.check import run_rules, new_failures

BASE = os.environ.get("TRY_REPO", "/repo")
patch = sys.argv[1]
props = sys.argv[2:] or [f"C{i:02d}" for i in range(1, 20)]
ov = apply_unified_diff(BASE, open(patch, encoding="utf8").read())
own_base = None
if ov is None:
    from sa.selftest import _stale_overlays
    st = _stale_overlays(BASE, patch)  # made against an earlier commit: judge it against its own base files
    if st is None:
        print("patch does not apply"); sys.exit(3)
    own_base, ov = st
for p in props:
    try:
        prog = Program(BASE, ov)
        chk = run_rules(p, prog, "quick")
        nf = new_failures(chk)
        if own_base is not None:
            try:
                b0 = run_rules(p, Program(BASE, own_base), "quick").failure_keys()
            except AnalysisError:
                b0 = set()
            nf = [k for k in nf if k not in b0]
        st = "FAIL" if nf else ("REFUSED" if chk.refusals else "ok")
        if st != "ok" or len(props) == 1:
            print(p, st)
        for k in nf:
            o = [o for o in chk.obligations if (o["rule"], o["construct"]) == k and not o["ok"]][0]
            print("   violated:", k[0], k[1], "@", o["where"], "::", o["detail"][:300])
        for r in chk.refusals:
            print("   refused:", r[:300])
    except AnalysisError as e:
        print(p, "REFUSED(whole)", str(e)[:300])
