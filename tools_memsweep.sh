#!/bin/bash
# tools_memsweep.sh [engine_dir] [outdir]: every kept seeded breaking change judged in memory by all 19 rule sets (nothing in /repo touched);
# prints per change: CAUGHT (own property fails) / CAUGHT-OTHER / REFUSED / MISSED
ENG=${1:-/verif}
OUT=${2:-/tmp/ms_new}
mkdir -p $OUT
ls -d /verif/seeded/*/ | grep -v refactors | xargs -P 16 -I{} sh -c 'id=$(basename {}); /venv/bin/python '$ENG'/tools_try.py {}patch.diff > '$OUT'/$id.txt 2>&1'
for f in $OUT/*.txt; do id=$(basename $f .txt); p=$(echo $id | sed -E 's/^[A-Z]?(C[0-9][0-9]).*/\1/');
  if grep -q "^$p FAIL" $f; then v=CAUGHT; elif grep -q " FAIL" $f; then v="CAUGHT-OTHER $(grep ' FAIL' $f | cut -d' ' -f1 | tr '\n' ' ')"; elif grep -q "^$p REFUSED" $f; then v=REFUSED; elif grep -q "Traceback\|does not apply" $f; then v=TOOL-ERROR; else v=MISSED; fi; echo "$id $v"; done
