#!/usr/bin/env python3
"""prints the prompt given to an independent mutation-seeding sub-agent for one property (nothing from /verif's checks is included)"""
import json, sys
pid = sys.argv[1]
n = int(sys.argv[2]) if len(sys.argv) > 2 else 3
prop = [json.loads(l) for l in open("/verif/properties.jsonl") if json.loads(l)["id"] == pid][0]
tag = sys.argv[3] if len(sys.argv) > 3 else pid
disguised = len(sys.argv) > 4 and sys.argv[4] == "disguised"
deps = len(sys.argv) > 4 and sys.argv[4] == "deps"
wt = f"/tmp/wt_{tag}"
DISG = """
  (e) DISGUISE: at least two of the changes must look like a behaviour-preserving clean-up in which the breaking edit hides: the code is restructured at the same time (statements moved into a
      newly extracted private helper or generator, locals renamed, a loop turned into a comprehension or back, a match turned into an if-chain or a lookup table, a flag replaced by early returns,
      values grouped into a small NamedTuple, a sign / order / index convention changed at one of two cooperating sites) so that a reviewer comparing shapes would wave it through.""" if disguised else ""
if deps:
    DISG = """
  (e) WHERE: at least three of the changes must be made OUTSIDE the functions / methods named in the mechanisms above - in something the anchored mechanism depends on or that depends on it:
      a helper or callee it calls, a base-class or sibling-class method it inherits or overrides, a property / dunder method (__init__, __iter__, __getstate__, __eq__, __hash__, __len__, ...) of a
      class it handles, a module-level constant or table, a default argument or field default, an import / alias, a caller or wrapper that passes arguments down to it, a script under molli/scripts
      that drives it. The named functions themselves stay textually untouched in those changes; the property must nevertheless break for some input the quantifier lists. Read the code around the
      anchors first (who calls them, what they call, which classes flow through them) and choose places a reviewer of the anchored function alone would never look at."""
print(f"""You are helping to evaluate a verification effort by playing the adversary. You work ONLY inside the scratch git worktree {wt}
(a checkout of the Python library SEDenmarkLab/molli: molecular graph/geometry classes, mol2/xyz/CDXML parsers, library file formats, job runner).
Do not read or write anything under /repo or /verif, and do not look for other people's analysis anywhere on this machine. There is no network.

Here is a semantic property of molli that is supposed to hold:

  id: {prop['id']}
  title: {prop['title']}
  statement: {prop['statement']}
  quantified over: {prop['quantifier']['text']}
  code it is anchored in: {', '.join(prop['anchors']['files'])}
  mechanisms: {'; '.join(m.get('name','') + ' @ ' + str(m.get('where','')) for m in prop['anchors'].get('mechanism', []))}

Your task: produce {n} DISTINCT, independent source changes to molli (each one a separate small patch against the worktree's HEAD), each of which
  (a) BREAKS this property (for at least one input / history / crash point / schedule the property quantifies over),
  (b) still imports and passes the existing test suite exactly as before:  cd {wt} && MOLLI_HOME=/tmp/mh_{tag} /venv/bin/python -m pytest -q -p no:cacheprovider --timeout=900 --continue-on-collection-errors
      (expected today: 81 passed, 4 failed [test_conformer_to_lib, test_ensemble_lib, test_load_all, test_loads_all fail for unrelated reasons], 19 skipped - the same set must pass and fail with your change),
  (c) looks like a realistic slip or "improvement" a developer could make (a refactor gone subtly wrong, an optimisation, an off-by-one, a dropped argument, a reordered statement, a relaxed condition, two cooperating sites that each look fine alone) - NOT sabotage that ordinary use would expose at once, and NOT a change to tests,
  (d) needs something specific to manifest: a particular input shape, a multi-step sequence of operations, a fault/exception at a particular point, a crash at a particular byte, a particular interleaving, an unusual but legal argument.{DISG}
Prefer variety: make the {n} changes touch different mechanisms / different files of the anchored code where possible, and vary the style (deleted statement, changed constant, reordered statements, new helper, changed condition, changed default).

For each change i = 1..{n} deliver, under {wt}/_out/m<i>/ :
  - patch.diff      : `git diff` of ONLY that change against HEAD (apply with `git apply`); source files under molli/ only
  - demo.py         : a small standalone program (run as `cd {wt} && /venv/bin/python _out/m<i>/demo.py`) that exits 0 and prints PASS on the unchanged tree and exits non-zero / prints FAIL with the change applied; it must exercise the real molli code (import molli from the worktree: run it with the worktree as the current directory), use temporary directories for any files, and need no network
  - note.md         : 5-10 lines: what the change is, why it breaks the property, what specific circumstance it needs to manifest, and the exact commands you ran with their outcomes (test suite with the change: pass/fail counts; demo without and with the change)
Work one change at a time: make the edit, run the test suite, run the demo with the change, save `git diff > _out/m<i>/patch.diff`, then `git checkout -- molli` to restore the tree, and run the demo again on the clean tree to confirm it prints PASS. Leave the worktree clean (only the untracked _out/ directory) when you finish.
Useful facts: use /venv/bin/python (3.12, has numpy, msgpack, attrs, fasteners, networkx, scipy, pytest); `import molli as ml` works when the current directory is the worktree; bundled example files are reachable as ml.files.<name> (see molli/files/__init__.py).
Your final answer should be a short list: for each change, one line saying what it does and whether all three confirmations (tests unchanged, demo fails with, demo passes without) succeeded.""")
