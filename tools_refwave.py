#!/venv/bin/python
"""tools_refwave.py <TAG-prefix e.g. BR> [nn ...]: confirm and keep the behaviour-preserving refactorings of a wave
(/tmp/wt_<TAG><nn>/_out/r<k>/: patch applies, equiv.py prints the same digest with and without, suite unchanged) under
seeded/refactors/<TAG><nn>-r<k>/ with the current engine's verdict (in memory, all 19 rule sets).  Editing aid."""
import os, sys
from concurrent.futures import ThreadPoolExecutor
os.environ.setdefault("TRY_REPO", "/repo")
import tools_seed as ts

pre = sys.argv[1]
nums = sys.argv[2:] or ["%02d" % i for i in range(1, 20)]


def run_wt(n):
    import subprocess
    out = []
    for k in (1, 2, 3, 4):
        d = f"/tmp/wt_{pre}{n}/_out/r{k}"
        if not os.path.exists(f"{d}/patch.diff"):
            continue
        p = subprocess.run(["/venv/bin/python", "/verif/tools_seed.py", "refactor", f"{pre}{n}", f"r{k}", f"{pre}{n}-r{k}"], capture_output=True, text=True, cwd="/verif",
                           env=dict(os.environ, TRY_REPO="/repo"))
        t = (p.stdout + p.stderr).strip().splitlines()
        out.append((f"{pre}{n}-r{k}", " | ".join(t[-2:]) if t else "?"))
    return out


with ThreadPoolExecutor(max_workers=int(os.environ.get("WAVE_JOBS", "6"))) as ex:
    for rows in ex.map(run_wt, nums):
        for sid, line in rows:
            print("%-10s %s" % (sid, line[:200]), flush=True)
