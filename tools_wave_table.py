#!/usr/bin/env python3
"""tools_wave_table.py <TAG> [sweepdir]: markdown rows for a wave from seeded/<TAG>*/meta.json (first verdict of the frozen engine, current verdict
from the in-memory sweep directory if given, else from meta.caught_by).  Editing aid for DESIGN.md."""
import json, os, re, sys
tag = sys.argv[1]
sw = sys.argv[2] if len(sys.argv) > 2 else None

def verdict(c, prop):
    own = c.get(f"{prop}/quick")
    if own and own["exit"] == 1:
        return "caught"
    if own and own["exit"] == 2:
        return "refused"
    oth = [k[:3] for k, v in c.items() if v["exit"] == 1]
    return "missed" + (f" ({', '.join(oth)} only)" if oth else "")

def sweep(sid, prop):
    f = f"{sw}/{sid}.txt"
    if not sw or not os.path.exists(f):
        return None, None
    t = open(f, errors="replace").read()
    rules = sorted(set(re.findall(r"violated: (" + prop + r"\.R\w+)", t)))
    if re.search(rf"^{prop} FAIL", t, re.M):
        return "caught", ", ".join(rules)
    if re.search(rf"^{prop} REFUSED", t, re.M):
        return "refused", ""
    return "missed", ""

tot = {}
for sid in sorted(os.listdir("seeded")):
    if not sid.startswith(tag) or not os.path.exists(f"seeded/{sid}/meta.json"):
        continue
    m = json.load(open(f"seeded/{sid}/meta.json"))
    prop = m["property"]
    first = verdict(m.get("caught_by_initial", {}), prop)
    now, rules = sweep(sid, prop)
    if now is None:
        now = verdict(m.get("caught_by", {}), prop)
        rules = ", ".join(sorted({l.split()[1] for v in m.get("caught_by", {}).values() for l in v.get("lines", []) if l.startswith("violated:") and l.split()[1].startswith(prop)}))
    what = re.sub(r"^#+\s*(m\d+\s*[-:–—]*\s*)?", "", m.get("needs_to_manifest", "").splitlines()[0] if m.get("needs_to_manifest") else "").strip()[:150]
    tot[(first.split()[0], now)] = tot.get((first.split()[0], now), 0) + 1
    print(f"| {sid} | {what} | {first} | {rules if now == 'caught' else '- (' + now + ')'} |")
print(tot, file=sys.stderr)
