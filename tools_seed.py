#!/usr/bin/env python3
"""
tools_seed.py verify <PROP> <m>      confirm an agent-made change in its scratch worktree /tmp/wt_<PROP>:
                                     patch applies, baseline suite unchanged, demo fails with / passes without
tools_seed.py check  <PROP> <m>      apply the patch to /repo, run the quick (and thorough) check of every claimed
                                     property, undo it straight away; prints which checks caught it
tools_seed.py keep   <PROP> <m> <id> copy patch.diff / demo.py / note.md to /verif/seeded/<id>/ and write meta.json
(editing aid for the seeded-change study; not used by any registered check)
"""
import json
import os
import shutil
import subprocess
import sys

ALWAYS_FAIL = ("test_conformer_to_lib", "test_ensemble_lib", "test_load_all", "test_loads_all")


ENGINE = os.environ.get("SEED_ENGINE", "/verif")  # a frozen worktree of /verif may judge while /verif itself is being edited


def sh(cmd, cwd=None, timeout=1800):
    p = subprocess.run(cmd, shell=True, cwd=cwd, capture_output=True, text=True, timeout=timeout)
    return p.returncode, p.stdout + p.stderr


def verify(prop, m):
    wt = f"/tmp/wt_{prop}"
    d = f"{wt}/_out/{m}"
    res = {}
    sh("git checkout -- molli", wt)
    rc, out = sh(f"git apply --check {d}/patch.diff", wt)
    res["applies"] = rc == 0
    if rc:
        print("patch does not apply:", out[-400:])
        return res
    rc, out = sh(f"/venv/bin/python {d}/demo.py", wt)
    res["demo_clean_pass"] = rc == 0
    sh(f"git apply {d}/patch.diff", wt)
    try:
        rc, out2 = sh(f"/venv/bin/python {d}/demo.py", wt)
        res["demo_mutant_fail"] = rc != 0 or "FAIL" in out2
        # a private MOLLI_HOME: several suites running at once disturb each other through the shared ~/.molli/scratch
        rc, t = sh(f"MOLLI_HOME=/tmp/mh_{prop} /venv/bin/python -m pytest -q -rf -p no:cacheprovider --timeout=900 --continue-on-collection-errors", wt)
        last = t.strip().splitlines()[-1]
        bad = [l for l in t.splitlines() if l.startswith("FAILED") and not any(a in l for a in ALWAYS_FAIL)]
        import re
        mm = re.search(r"(\d+) passed", last)
        res["tests"] = last
        res["tests_unchanged"] = not bad and mm is not None and int(mm.group(1)) >= 81
        rc, c = sh("/venv/bin/python -c \"import sys; sys.path.insert(0,'.'); import molli\"", wt)
        res["imports"] = rc == 0
    finally:
        sh("git checkout -- molli", wt)
    print(json.dumps(res, indent=1))
    return res


def claimed():
    m = json.load(open("/verif/MANIFEST.json"))
    return [c["property_id"] for c in m["checks"]]


def check(prop, m, tiers=("quick",), src=None):
    d = src or f"/tmp/wt_{prop}/_out/{m}"
    rc, out = sh("git status --porcelain", "/repo")
    if out.strip():
        print("/repo is not clean; refusing", out)
        return None
    rc, out = sh(f"git apply {d}/patch.diff", "/repo")
    if rc:
        print("patch does not apply to /repo:", out[-300:])
        return None
    caught = {}
    try:
        for tier in tiers:
            for p in claimed():
                rc, out = sh(f"/venv/bin/python sa/check.py {p} --tier {tier} --quiet", ENGINE)
                v = [l for l in out.splitlines() if l.startswith("VIOLATION") or "violated:" in l or l.startswith("ANALYSIS-ERROR")]
                if rc != 0:
                    caught[f"{p}/{tier}"] = dict(exit=rc, lines=[l.strip()[:260] for l in v][:6])
    finally:
        sh("git checkout -- .", "/repo")
        # evidence files were rewritten by the runs on the mutated tree: restore them
        sh("git checkout -- evidence", ENGINE)
    print(json.dumps(caught, indent=1))
    return caught


def keep(prop, m, sid, caught, verified):
    src = f"/tmp/wt_{prop}/_out/{m}"
    dst = f"/verif/seeded/{sid}"
    os.makedirs(dst, exist_ok=True)
    for f in ("patch.diff", "demo.py", "note.md"):
        if os.path.exists(f"{src}/{f}"):
            shutil.copy(f"{src}/{f}", f"{dst}/{f}")
    note = open(f"{src}/note.md").read() if os.path.exists(f"{src}/note.md") else ""
    meta = dict(
        id=sid, property=prop.lstrip("WX"), origin="independent sub-agent given only the property text and a scratch worktree",
        base_commit=sh("git rev-parse --short HEAD", f"/tmp/wt_{prop}")[1].strip(),
        needs_to_manifest=note.strip().split("\n\n")[0][:600],
        confirmed=verified,
        what_i_ran=[
            f"cd /tmp/wt_{prop} && git apply _out/{m}/patch.diff && /venv/bin/python -m pytest -q ... (baseline unchanged) && /venv/bin/python _out/{m}/demo.py (fails); git checkout -- molli; demo.py (passes)",
            "git -C /repo apply patch.diff; /venv/bin/python sa/check.py <each claimed property> --tier quick; git -C /repo checkout -- .",
        ],
        caught_by=caught,
    )
    json.dump(meta, open(f"{dst}/meta.json", "w"), indent=1)
    print("kept", dst)


def refactor(tag, r, sid):
    """evaluate a behaviour-preserving refactoring made by a sub-agent in /tmp/wt_<tag>/_out/<r>/"""
    wt = f"/tmp/wt_{tag}"
    d = f"{wt}/_out/{r}"
    res = {}
    sh("git checkout -- molli", wt)
    rc, out = sh(f"git apply --check {d}/patch.diff", wt)
    res["applies"] = rc == 0
    if rc:
        print("patch does not apply", out[-300:])
        return
    rc, base = sh(f"/venv/bin/python {d}/equiv.py", wt)
    res["equiv_clean_exit0"] = rc == 0
    sh(f"git apply {d}/patch.diff", wt)
    try:
        rc, mut = sh(f"/venv/bin/python {d}/equiv.py", wt)
        def dig(t):
            ls = [l.strip() for l in t.splitlines() if "digest" in l.lower()]
            return ls or t.strip()
        res["equiv_same_digest"] = rc == 0 and dig(mut) == dig(base)
        ok = False
        for attempt in range(3):
            rc, t = sh(f"MOLLI_HOME=/tmp/mh_{tag} /venv/bin/python -m pytest -q -rf -p no:cacheprovider --timeout=900 --continue-on-collection-errors", wt)
            last = t.strip().splitlines()[-1]
            bad = [l for l in t.splitlines() if l.startswith("FAILED") and not any(a in l for a in ALWAYS_FAIL)]
            import re
            mm = re.search(r"(\d+) passed", last)
            if not bad and mm and int(mm.group(1)) >= 81:
                ok = True
                break
        res["tests"] = last
        res["tests_unchanged"] = ok
    finally:
        sh("git checkout -- molli", wt)
    print(json.dumps(res))
    if not all(res.get(k) for k in ("applies", "equiv_clean_exit0", "equiv_same_digest", "tests_unchanged")):
        print("NOT CONFIRMED as behaviour-preserving - not kept")
        return
    # in-memory replay through all 19 rule sets against a pristine snapshot (nothing in /repo is touched)
    import re
    snap = os.environ.get("TRY_REPO", "/tmp/repo_clean")
    rc, out = sh(f"TRY_REPO={snap} /venv/bin/python /verif/tools_try.py {d}/patch.diff", "/verif")
    alarms, cur = {}, None
    for l in out.splitlines():
        mm = re.match(r"^(C\d\d) (FAIL|REFUSED)", l)
        if mm:
            cur = mm.group(1)
            alarms[cur] = dict(verdict="FALSE-ALARM" if mm.group(2) == "FAIL" else "REFUSED", lines=[])
        elif cur and l.startswith("   "):
            alarms[cur]["lines"].append(l.strip()[:300])
        elif "Traceback" in l or "patch does not apply" in l:
            alarms["_tool"] = dict(verdict="REFUSED", lines=[l])
    dst = f"/verif/seeded/refactors/{sid}"
    os.makedirs(dst, exist_ok=True)
    for f in ("patch.diff", "equiv.py", "note.md"):
        if os.path.exists(f"{d}/{f}"):
            shutil.copy(f"{d}/{f}", f"{dst}/{f}")
    verdict = "FALSE-ALARM" if any(v["verdict"] == "FALSE-ALARM" for v in alarms.values()) else ("REFUSED" if alarms else "silent")
    engine = sh("git rev-parse --short HEAD", "/verif")[1].strip()
    prop = "C" + tag[-2:]
    meta = dict(id=sid, property=prop, kind="behaviour-preserving refactoring (independent sub-agent)", confirmed=res,
                base_commit=sh("git rev-parse --short HEAD", wt)[1].strip(), first_engine=engine + " (+ working tree)", first_verdict=verdict, first_alarms=alarms,
                verdict=verdict, alarms=alarms, how="in-memory replay of patch.diff on /repo HEAD through all 19 rule sets (tools_try.py)")
    json.dump(meta, open(f"{dst}/meta.json", "w"), indent=1)
    print(sid, verdict, sorted(alarms))


def sweep_refactors():
    base = "/verif/seeded/refactors"
    for sid in sorted(os.listdir(base)) if os.path.isdir(base) else []:
        d = f"{base}/{sid}"
        meta = json.load(open(f"{d}/meta.json"))
        c = check(meta["property"], None, src=d)
        if c is None:
            meta["verdict"] = "n/a (patch no longer applies)"
        else:
            meta["verdict"] = "FALSE-ALARM" if any(v["exit"] == 1 for v in c.values()) else ("REFUSED" if any(v["exit"] == 2 for v in c.values()) else "silent")
            meta["result"] = c
        json.dump(meta, open(f"{d}/meta.json", "w"), indent=1)
        print("%-12s %s" % (sid, meta["verdict"]))


def sweep(only=None):
    """re-run every kept seeded change against the current checks; record the outcome in its meta.json"""
    rows = []
    for sid in sorted(os.listdir("/verif/seeded")):
        d = f"/verif/seeded/{sid}"
        if not os.path.exists(f"{d}/patch.diff") or (only and sid not in only):
            continue
        meta = json.load(open(f"{d}/meta.json"))
        if "caught_by_initial" not in meta:
            meta["caught_by_initial"] = meta.get("caught_by", {})
        c = check(meta["property"], None, src=d)
        if c is None:
            meta["caught_by"] = {"note": "patch no longer applies to /repo HEAD"}
        else:
            meta["caught_by"] = c
        json.dump(meta, open(f"{d}/meta.json", "w"), indent=1)
        own = [k for k in (c or {}) if (c[k]["exit"] == 1)]
        ref = [k for k in (c or {}) if (c[k]["exit"] == 2)]
        rows.append((sid, "CAUGHT " + ",".join(own) if own else ("REFUSED " + ",".join(ref) if ref else ("n/a" if c is None else "MISSED"))))
    for r in rows:
        print("%-10s %s" % r)


def sweep2(only=None):
    """like sweep, but cheaper: every change is first judged in memory by all 19 rule sets (tools_try.py against a pristine snapshot, in
    parallel); then it is applied to /repo and the registered quick checks of its own property and of every property that spoke up in
    memory are run on disk.  A change that no longer applies to HEAD is judged in memory on the files of its own base commit."""
    import re
    from concurrent.futures import ThreadPoolExecutor

    snap = os.environ.get("TRY_REPO", "/tmp/repo_clean")
    sids = [sid for sid in sorted(os.listdir("/verif/seeded")) if os.path.exists(f"/verif/seeded/{sid}/patch.diff") and (not only or sid in only)]

    def mem(sid):
        rc, out = sh(f"TRY_REPO={snap} /venv/bin/python tools_try.py seeded/{sid}/patch.diff", "/verif", timeout=1800)
        return sid, out

    with ThreadPoolExecutor(max_workers=10) as ex:
        outs = dict(ex.map(mem, sids))
    rows = []
    for sid in sids:
        d = f"/verif/seeded/{sid}"
        meta = json.load(open(f"{d}/meta.json"))
        if "caught_by_initial" not in meta:
            meta["caught_by_initial"] = meta.get("caught_by", {})
        spoke = {}
        cur = None
        for l in outs[sid].splitlines():
            mm = re.match(r"^(C\d\d) (FAIL|REFUSED)", l)
            if mm:
                cur = mm.group(1)
                spoke[cur] = dict(exit=1 if mm.group(2) == "FAIL" else 2, lines=[])
            elif cur and l.startswith("   "):
                spoke[cur]["lines"].append(l.strip()[:260])
        props = sorted(set(spoke) | {meta["property"]})
        rc, st = sh("git status --porcelain", "/repo")
        assert not st.strip(), "/repo not clean"
        rc, ap = sh(f"git apply {d}/patch.diff", "/repo")
        caught = {}
        if rc:
            caught = {f"{p_}/quick": dict(v, how="in memory, on the files of the change's own base commit (it no longer applies to HEAD)") for p_, v in spoke.items()}
        else:
            try:
                for p_ in props:
                    rc2, out = sh(f"/venv/bin/python sa/check.py {p_} --tier quick --quiet", ENGINE)
                    v = [l for l in out.splitlines() if l.startswith("VIOLATION") or "violated:" in l or l.startswith("ANALYSIS-ERROR")]
                    if rc2 != 0:
                        caught[f"{p_}/quick"] = dict(exit=rc2, lines=[l.strip()[:260] for l in v][:6])
            finally:
                sh("git checkout -- .", "/repo")
                sh("git checkout -- evidence", ENGINE)
        meta["caught_by"] = caught
        meta["swept_with"] = sh("git rev-parse --short HEAD", "/verif")[1].strip() + " (+ working tree)"
        json.dump(meta, open(f"{d}/meta.json", "w"), indent=1)
        own = [k for k in caught if caught[k]["exit"] == 1]
        ref = [k for k in caught if caught[k]["exit"] == 2]
        rows.append((sid, "CAUGHT " + ",".join(own) if own else ("REFUSED " + ",".join(ref) if ref else "MISSED")))
    for r in rows:
        print("%-10s %s" % r)
    from collections import Counter
    print(Counter(r[1].split()[0] for r in rows))


if __name__ == "__main__":
    cmd = sys.argv[1]
    if cmd == "sweep2":
        sweep2(set(sys.argv[2:]) or None)
        sys.exit(0)
    if cmd == "refactor":
        refactor(sys.argv[2], sys.argv[3], sys.argv[4])
        sys.exit(0)
    if cmd == "sweep-refactors":
        sweep_refactors()
        sys.exit(0)
    if cmd == "sweep":
        sweep(set(sys.argv[2:]) or None)
        sys.exit(0)
    if cmd == "verify":
        verify(sys.argv[2], sys.argv[3])
    elif cmd == "check":
        check(sys.argv[2], sys.argv[3], tiers=tuple(sys.argv[4:]) or ("quick",))
    elif cmd == "all":
        prop, m, sid = sys.argv[2:5]
        v = verify(prop, m)
        if not (v.get("applies") and v.get("demo_clean_pass") and v.get("demo_mutant_fail") and v.get("tests_unchanged")):
            print("NOT CONFIRMED - not kept")
            sys.exit(1)
        c = check(prop, m)
        if c is None:
            sys.exit(1)
        keep(prop, m, sid, c, v)
