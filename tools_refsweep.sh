#!/bin/bash
# tools_refsweep.sh [engine_dir] : run every kept refactoring through all 19 rule sets in memory (no file in /repo touched)
ENG=${1:-/verif}
OUT=${2:-/tmp/rs_new}
mkdir -p $OUT
ls -d /verif/seeded/refactors/*/ | xargs -P 16 -I{} sh -c 'id=$(basename {}); /venv/bin/python '$ENG'/tools_try.py {}patch.diff > '$OUT'/$id.txt 2>&1'
for f in $OUT/*.txt; do id=$(basename $f .txt); if grep -q "FAIL" $f; then v=FALSE-ALARM; elif grep -q "REFUSED\|Traceback" $f; then v=REFUSED; else v=silent; fi; echo "$id $v"; done
