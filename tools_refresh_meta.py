#!/venv/bin/python
"""tools_refresh_meta.py <memsweep-dir> <refsweep-dir>: write the current engine's verdicts (as printed by tools_try.py for every kept
change: tools_memsweep.sh / tools_refsweep.sh) into the meta.json files: seeded/<id>: caught_by ; seeded/refactors/<id>: verdict, alarms.
The first verdicts (caught_by_initial / first_verdict / first_alarms) are never touched.  Editing aid."""
import json, os, re, subprocess, sys

ms, rs = sys.argv[1], sys.argv[2]
rev = subprocess.run("git -C /verif rev-parse --short HEAD", shell=True, capture_output=True, text=True).stdout.strip()


def parse(path):
    spoke, cur = {}, None
    if not os.path.exists(path):
        return None
    for l in open(path, errors="replace"):
        l = l.rstrip("\n")
        m = re.match(r"^(C\d\d) (FAIL|REFUSED)", l)
        if m:
            cur = m.group(1)
            spoke[cur] = dict(verdict=m.group(2), lines=[])
        elif cur and l.startswith("   "):
            spoke[cur]["lines"].append(l.strip()[:260])
    return spoke


n = 0
for sid in sorted(os.listdir("/verif/seeded")):
    d = f"/verif/seeded/{sid}"
    mp = f"{d}/meta.json"
    if sid == "refactors" or not os.path.exists(mp):
        continue
    sp = parse(f"{ms}/{sid}.txt")
    if sp is None:
        continue
    meta = json.load(open(mp))
    if "caught_by_initial" not in meta:
        meta["caught_by_initial"] = meta.get("caught_by", {})
    meta["caught_by"] = {f"{p}/quick": dict(exit=1 if v["verdict"] == "FAIL" else 2, lines=v["lines"][:6], how="in memory (tools_try.py), all 19 rule sets") for p, v in sp.items()}
    meta["swept_with"] = rev + " (+ working tree)"
    json.dump(meta, open(mp, "w"), indent=1)
    n += 1
for sid in sorted(os.listdir("/verif/seeded/refactors")):
    d = f"/verif/seeded/refactors/{sid}"
    mp = f"{d}/meta.json"
    sp = parse(f"{rs}/{sid}.txt")
    if sp is None or not os.path.exists(mp):
        continue
    meta = json.load(open(mp))
    if "first_verdict" not in meta:
        meta["first_verdict"] = meta.get("verdict")
        meta["first_alarms"] = meta.get("alarms", {})
    meta["verdict"] = "FALSE-ALARM" if any(v["verdict"] == "FAIL" for v in sp.values()) else ("REFUSED" if sp else "silent")
    meta["alarms"] = {p: dict(verdict="FALSE-ALARM" if v["verdict"] == "FAIL" else "REFUSED", lines=v["lines"][:6]) for p, v in sp.items()}
    meta["swept_with"] = rev + " (+ working tree)"
    json.dump(meta, open(mp, "w"), indent=1)
    n += 1
print("updated", n)
