#!/usr/bin/env python3
"""Regenerates MANIFEST.json from the table below (kept by hand)."""
import json
import os

HERE = os.path.dirname(os.path.abspath(__file__))
IDS = [json.loads(l)["id"] for l in open(os.path.join(HERE, "properties.jsonl"))]

COMMON_NOTE = (
    "Static analysis only (python ast; molli is never imported or executed). Decides the structural clauses "
    "listed, for every path / call site / table row of the current source; does not decide the behaviour as a "
    "whole. Trusted: python's ast, the engine's resolver (imports, C3 MRO), and the library semantics named in "
    "DESIGN.md section 8."
)

CLAIMED = {
    # id: (technique, claim text, design ref, extra level note)
    "C01": (
        "writer/reader positional-table agreement by provenance and sink + no value filter on restored fields + un-memoised codec choice + record-file key/length agreement (borrowed C02.R4)",
        "Decides, for the four codecs in chem/io.py, that each writer tuple position and the reader position at the same "
        "index name the same field (by provenance of the writer element and the constructor keyword / role the reader "
        "value sinks into), with equal float dtypes of >= 4 bytes, reshape dims equal to the counts the writer stored and "
        "the rank of the container; that atom/bond sub-schemas are the same constant on both sides, split at the same "
        "index with endpoints in (a1, a2) order, name only init fields of Atom/Bond and contain every field the property "
        "lists; that the library classes pair serializer/deserializer of the same kind and version, and that Collection "
        "passes key and value through the codec. A disagreement necessarily loses or misplaces a field for some object; "
        "value-level equality (NaN, nested attributes) is not decided.",
        "DESIGN.md section 4, C01",
        "numpy / msgpack value semantics trusted.",
    ),
    "C11": (
        "NARROW structural claim: whole-array update shape, dihedral pivot wiring, fit/report pairing, view indexing, helper purity",
        "Narrow claim, stated plainly: NONE of the numerical identities of C11 (distance preservation, orthogonality and determinant of "
        "the constructed matrices, the dihedral reached, the RMSD value, pose independence) is decided - they are properties of the "
        "algebra, not of the shape of the code. Decided are five structural necessary conditions whose failure breaks those clauses "
        "for every input: translate/transform/rotate update the whole coordinate array with one operand derived from the argument; "
        "rotate_dihedral rotates exactly the far side of the bond about atoms[1]->atoms[2] by (target - current) between a cancelling "
        "translate pair; both alignment routines apply the rotation and return the RMSD of the same fit after centring; the "
        "Substructure and Conformer coordinate views read and write the same rows; the rotation helpers do not mutate their "
        "arguments and read no hidden state.",
        "DESIGN.md sections 4 (C11) and 6",
        "everything numerical in C11 is outside the technique (see the seeded changes C12-m1 and C13-m3 for the boundary).",
    ),
    "C12": (
        "effect summaries over the resolved call graph + reachability of hidden state + data-flow facts + half-turn branch shape (borrowed C11.R6)",
        "Decides that Structure.join never writes its inputs (effect summaries: attribute/item stores, augmented assignment, "
        "mutator methods, views, transitively through resolved callees with dynamic dispatch along the static MRO); that no "
        "function reachable from join reads a global RNG / clock or mutates process- or module-global state; that an override "
        "with a falsy legitimate value (charge=0) is tested with `is None`; and - by role-based data-flow facts that survive "
        "renaming of locals - the constitution of the product (atom filter, copy_atoms, bond filter + evolve through the atom "
        "map, exactly one fresh bond between the former neighbours), the block order and masks of the stacked coordinates, the "
        "charge/multiplicity arithmetic, that the requested length scales the unit vector along A's direction, and the "
        "rotation's arguments.",
        "DESIGN.md section 4, C12",
        "rigidity, handedness, bond direction and length as numbers, and the rotamer choice are numerical and not decided.",
    ),
    "C15": (
        "shape rules on the BFS generators (queue form and level-by-level form) + sibling comparison + call-site roles at the graph matcher",
        "Decides the shapes whose failure is the classic slip: in both breadth-first generators the dequeue and the enqueue "
        "act on opposite ends of the deque; every yield sits under `not in visited` together with visited.add and the "
        "enqueue of the same atom, over the neighbours of the popped atom; seeds and distance arithmetic (popped + 1); the two "
        "siblings are identical up to the distance component; GraphMatcher gets (self graph, pattern graph), the induced "
        "iterator is used, the mapping is inverted, the Unknown wildcard is tested on the pattern side; the adjacency helpers "
        "all reduce to one scan of the bond list; is_bond_in_ring searches from a1 through a2 for another neighbour of a1.",
        "DESIGN.md section 4, C15",
        "the full 'exactly the induced embeddings' and general ring perception are not decided; networkx trusted.",
    ),
    "C16": (
        "effect discipline (incl. in-place updates of shared module tables) + pairing + per-count specialisation of the placement dispatch + formula ast + additive provenance on the value form",
        "Decides that add_implicit_hydrogens changes the molecule only through add_atom(fresh H) / append_bond(fresh Bond) "
        "(calls resolved through the effect summaries), never assigns attributes of existing atoms (the documented hint pop "
        "excepted) and never operates in place on a view of the coordinates; that every fresh hydrogen is bonded exactly once "
        "to the atom it was added for; that the dispatch on the count covers 1..4 and ends in an else that raises, and that an "
        "atom without neighbours gets a defined direction; that the count is max(0, 4 - |4 - (valence electrons - charge - "
        "|spin|)| - ceil(bonded valence)) with the hint taking precedence, groups 13..16 by default and VALENCE_ELECTRONS[g] = "
        "g - 10; and that every new coordinate is the atom's position plus an offset scaled by L = r_cov(atom) + r_cov(H).",
        "DESIGN.md section 4, C16",
        "the direction, finiteness in degenerate geometry and idempotence are not decided.",
    ),
    "C19": (
        "parameter-reaches-use + squared/plain unit rule on kernel results + token-level binding table",
        "Narrow claim. Decides only: the cut-off parameter reaches the KD-tree bound and the mask in every branch of "
        "nearest_atom_index and in prune (eps reaches the query); a *_eu2 kernel result is compared only with a squared "
        "radius (and vice versa) and reduced over the atom axis; the conformer average uses the ensemble's weights exactly "
        "when `weighted`; the m.def binding table of distance.cpp agrees with the naming scheme (rank, squared, width, both "
        "widths for generic names); the three axes of rectangular_grid are computed alike with the centred full lattice. The "
        "kernels' arithmetic and every numerical clause are NOT decided.",
        "DESIGN.md section 4, C19",
        "the C++ extension cannot be rebuilt or parsed here (no pybind11 headers); the prebuilt binary is assumed to correspond to distance.cpp.",
    ),
    "C17": (
        "shared-descriptor store rule + runner shape on the ast/CFG + exit status and recorded exit code tabulated over a finite outcome model (truth table of the conditions, sa/truth.py)",
        "Decides that Job.__get__ keeps no per-driver state on the descriptor shared by all driver instances (no store rooted at "
        "self; a fresh copy carrying executable/nprocs/envars that consults the driver instance is returned); that run_local uses a "
        "with-managed scratch directory, runs the commands in order with identical cwd/env (a copy of os.environ plus job.envars) "
        "at every subprocess site, leaves the loop at the first non-zero return code, reads captures back under the names it wrote, "
        "returns files as bytes with the loaded job's hash; that the success exit is guarded by both conditions; and that the "
        "recorded exit code depends on the failure position and on the returned files.",
        "DESIGN.md section 4, C17",
        "subprocess behaviour and captured text are not decided.",
    ),
    "C18": (
        "set-provenance lattice + branch narrowing + control dependence of reuse and of destination stores + outcome truth table of the runner and hash/dump/load agreement (borrowed C17.R3-R5)",
        "Decides, alike for jobmap and jobmap_sge, that the work list is provably a subset of the source keys; that the generator "
        "of per-conformer inputs is not used as a JobInput in the vectorised branch; that skipping a cached item is control-"
        "dependent on exitcode == 0 and on input_hash == the hash of the current input of that branch (bypassed only by "
        "strict_hash=False); that every destination store is in the else of the try around process(), inside writing(), keyed "
        "from the work list, and preceded by an exit-code test of the loaded output(s); that nothing deletes from the "
        "destination; that every collection access is inside the matching session; and (shared with C17) that a failed run "
        "is recorded as failed.",
        "DESIGN.md section 4, C18",
        "actual executions and counters are not decided.",
    ),
    "C13": (
        "attribute-to-field provenance + dispatch-table symmetry + parity analysis in the sign + hidden-state reachability",
        "Decides that each Atom/Bond constructor argument in the CDXML node parsers is computed from the XML attribute that "
        "carries it (Element, Isotope, Charge, Radical, NumHydrogens, Order, B/E) and from no other one, and that total charge "
        "and multiplicity follow from the formal charges / spins; that every drawn node yields one atom, one coordinate and one "
        "id entry and every drawn bond one bond (hapto expansion excepted); that the Display table is symmetric (hash partners "
        "differ only in the sign, Begin/End partners only in the order of the two atoms); that every coordinate mutation in "
        "_cdxml_3dify_ that depends on the sign is odd in it (parity analysis over products, abs, squares, conditionals, the "
        "rotation angle) and sign-independent moves occur only as a cancelling translate pair; that no hidden state is reachable "
        "from __getitem__ / _parse_fragment; and that the label cache stores exactly the fragment returned.",
        "DESIGN.md section 4, C13",
        "the 3-D interpretation of wedges, nearest-fragment geometry and radical semantics are not decided.",
    ),
    "C14": (
        "array co-update per path + re-entrant iteration + view completeness along the MRO (helper properties spelled out) + copy independence and ensemble codec agreement (borrowed C06.R6, C01)",
        "Decides that every block of every ConformerEnsemble method that rebinds one of _coords/_atomic_charges/_weights with a "
        "shape-changing constructor rebinds all three (literal shapes agreeing on n_conformers and n_atoms); that __iter__ "
        "hands out a fresh iterator; that the Conformer view defines a row-writing setter for every slot an inherited public "
        "setter rebinds, indexes the parent identically in getter and setter and reads the shared fields through; and that "
        "n_conformers and the array properties are the live arrays.",
        "DESIGN.md section 4, C14",
        "broadcasting behaviour of the setters and numeric results are not decided.",
    ),
    "C02": (
        "commit-last ordering on the statement CFG + affine stream-offset abstract interpretation of put / the reopen scan (induction at the loop head) + who-may-write",
        "Decides, on every path of UKVFile.put, that argument validation precedes the first stream write and that "
        "every store to the handle's index/extent follows the last fallible step (a failed put changes nothing); that "
        "the buffered backend flushes before reading; that file/block header writers and readers agree field by field; "
        "that put writes header | key | value back to back from _eof and indexes that offset with those lengths, and that the "
        "reopen scan (by induction over its loop, on affine offset forms) indexes every block at the offset of its header, "
        "continues at the end of the block and admits exactly the blocks that fit into the file; "
        "that the index shortcut is conditioned on the measured file size; that nothing but put and the creating header "
        "write touches the stream and index entries are never replaced. A violation of any of these breaks C02 for some history; the converse "
        "(byte-exact behaviour over all histories) is not decided.",
        "DESIGN.md section 4, C02",
        "struct/IO semantics trusted; one open known finding (F2c: key listed before a failing write).",
    ),
    "C03": (
        "layout-invariant argument: guarded-scan dominance on the CFG + affine offset relations (exact-fit test, _eof on every exit) + append-only who-may-write",
        "Decides the four code shapes that make the layout argument hold for every crash offset at once: writes only at "
        "_eof; the reopen scan admits a record only behind a completeness test whose 'torn' outcome cannot reach the "
        "index store; _eof/_last advance only behind it; a torn tail is truncated before the next append. No byte "
        "offsets are enumerated - the invariants quantify over all of them.",
        "DESIGN.md section 4, C03",
        "crash model: a prefix of the session's bytes reaches the disk.",
    ),
    "C04": (
        "must-release / must-close on the exceptional CFG with finally duplication + creation under the write lock (existence test inside it) + open() specialised per mode + scan / torn-tail clauses (borrowed C02.R1, C03.R2-R4)",
        "Decides that from the successful lock acquire every path of reading()/writing() (normal, exception at the "
        "yield, in update_keys, in flush, in end_*) passes the matching release, and from begin_* every path passes "
        "end_*; plus kind pairing, ordering acquire<begin<update_keys<yield, index refresh under the lock, lock "
        "identity from the resolved path and who-may-call for backend writes. Mutual exclusion itself is fasteners'.",
        "DESIGN.md section 4, C04",
        "schedules and real multi-process behaviour are not explored; fasteners trusted.",
    ),
    "C05": (
        "container co-update across the static MRO + who-may-write + parent bookkeeping + sibling resolver dispatch (incl. delegation) + one-shot iterable consumption count",
        "Decides that along the statically linearised chain Molecule -> Structure -> CartesianGeometry -> Connectivity -> "
        "Promolecule every primitive that changes the number of atoms (del_atom, add_atom, append_atom) is overridden by each "
        "class that owns a per-atom container, reaches super() on every normal path, resizes its own container by exactly "
        "that row along axis 0 with the index computed before the atom is removed, and deletes exactly the atom's bonds; "
        "that None cannot flow into the charge array; that containers are written only by their owner (no list mutators "
        "on .atoms/.bonds, no foreign rebinds); that every insertion sets the element's parent; that the Substructure view "
        "indexes identically in getter and setter; and that add_atom validates before it mutates.",
        "DESIGN.md section 4, C05",
        "two open known findings (F5a: append_atom / bond adoption does not extend coordinates and charges).",
    ),
    "C06": (
        "ownership / aliasing rules over copy branches (path conditions), evolve and the pickling protocol + parent bookkeeping of inserted elements (borrowed C05.R3/R4)",
        "Decides that evolve and the Promolecule copy branch deep-copy every mutable attrs field; that each class's copy "
        "branch moves every container it owns from the source through a copying operation (never an alias); that "
        "__getstate__ leaves out exactly _parent and __weakref__ (checked against attrs field order / __slots__), "
        "__setstate__ initialises what is left out and re-parents atoms and bonds, and every attribute kept in __dict__ "
        "anywhere in the hierarchy is part of the state; that join/concatenate build from copy_atoms=True, evolved/fresh "
        "bonds and fresh arrays, and transfer partial charges; and that the ensemble copy branch copies all three arrays.",
        "DESIGN.md section 4, C06",
        "run-time field-by-field equality is not decided; pickling of Conformer views is outside the rules (noted).",
    ),
    "C07": (
        "decision-table composition over (element x AtomType x AtomGeom) + record column agreement",
        "Decides, by composing the ordered decision tables read from Atom.get_mol2_type / set_mol2_type over the whole finite "
        "space (partition in the quick tier, all 119 elements in the thorough tier), that every emitted atom-type token is "
        "accepted by molli's own reader and that write(read(token)) == token; the same for bond tokens via the map literal "
        "and the writer rows; that ATOM/BOND/MOLECULE record columns written (f-string fields, constants, separators, index "
        "base, charge sentinel) are the columns the positional parser dataclasses and their consumers read; that the two "
        "sibling writers agree and every dumps_X calls dump_X(stream); and ensemble order both ways.",
        "DESIGN.md section 4, C07",
        "three open known findings (F7a: X.pl3 / X.th / X.oh are not fixed points). Numeric precision and labels with whitespace are not decided.",
    ),
    "C08": (
        "unit-orientation (dimension) check against physical constants + column agreement + element symbols tabulated against the dummy test + keyword forwarding",
        "Decides that every DistanceUnit literal equals the physical constant or its reciprocal, that all members share "
        "one orientation, and that at every site where a unit value reaches the coordinates the operation (numerator / "
        "denominator position, and scale() multiplying) converts to Angstrom for that orientation; that the xyz writer's "
        "columns and header and the reader's split / XYZAtom / coords agree position by position with literal blanks "
        "between fields; that ensemble writers emit every conformer in order and the reader keeps list order; and that "
        "source_units is forwarded by every public reader down to the scaling.",
        "DESIGN.md section 4, C08",
        "float formatting precision and magnitudes are not decided.",
    ),
    "C09": (
        "dispatch-matrix correspondence (arms specialised per format / parser) + MRO resolution + must-assigned dataflow on the CFG + load / load_all sibling agreement",
        "Decides cell by cell that each molli-format arm of load/loads/load_all/loads_all/dump/dumps makes exactly one "
        "call, to <entry>_<fmt>, returns it (or hands over the stream given), passes name=name; that the target resolves on "
        "every output type the entry point's guards admit; that the ValueError guard dominates the format match and the "
        "arms are exactly supported_fmts_molli; that every local read is definitely assigned (finally copies included); "
        "that only a stream opened by dump is closed; and that name travels down every class-level wrapper into the "
        "object returned.",
        "DESIGN.md section 4, C09",
        "the returned objects' contents are C07/C08.",
    ),
    "C10": (
        "stale-state reaching definitions between yields + count-loop shape + cycle weights for termination",
        "Decides that in read_mol2 every yield-to-yield path reassigns each variable of the yielded record (nothing of "
        "record k can be returned inside record k+1); that each count-driven record loop reads exactly one line and "
        "appends exactly once per iteration with no early exit or swallowing handler, into a list that is fresh on every "
        "path into the loop; that every handler in the record generators re-raises (read_xyz: as XYZSyntaxError, yield "
        "outside try); that every CFG cycle of the reader loops consumes input net of put_backs (termination); and that "
        "the molecule is sized and filled from the block's own header, atoms and bonds.",
        "DESIGN.md section 4, C10",
        "corruption that yields a different valid file is undetectable by any reader and not claimed.",
    ),
}

NOT_APPLICABLE = {
    "C11-numerical-note": "every clause is a numerical identity over floating-point arrays (distances, orthogonality, determinant, "
           "dihedral, RMSD); its truth is in the algebra, not in the shape of the code - deciding it would need "
           "evaluation or symbolic simplification (a different technique family). See DESIGN.md section 6.",
}


# round 4 (waves 9 and 10): clauses added per property; appended to the technique and claim texts above
ROUND4 = {
    "C01": ("reader sinks followed into the constructor / connect (must-pass-through)",
            "Round 4: every keyword the ensemble reader passes is consumed on the constructor branch that call takes, and Connectivity.connect appends a bond on every normal path."),
    "C02": ("getter chain without value tests + listing refresh on every path (borrowed C04.R3/R8) + default buffer size tabulated",
            "Round 4: the bytes read are returned without a truthiness / length test along Collection.__getitem__ -> backend.get -> UKVFile.get; every session refreshes the key listing "
            "and update_keys replaces it on every path; the default buffer size flushes on every put (finite-model evaluation)."),
    "C03": ("append-mode scan on a writable stream (borrowed C04.R3)", "Round 4: in mode 'a' map_blocks runs on a stream opened for writing, so the torn tail can be cut off."),
    "C04": ("listing refresh must-pass-through + writable stream in append mode", "Round 4: update_keys of every backend replaces the listing on every normal path; the append-mode arm of open() scans a writable stream."),
    "C05": ("path-sensitive parent store at insertion sites", "Round 4: the parent store at an insertion site runs on every normal path through the method (not only somewhere in it)."),
    "C06": ("filtered __dict__ state evaluated per key + override defaults", "Round 4: a filter on the __dict__ part of the pickled state is evaluated for every attribute the hierarchy stores there; "
            "the override parameters charge / mult / name of the constructor chain default to None (or to a falsy value where the base tests by truthiness)."),
    "C07": ("symbol getter evaluated over members + memoised setter vs identity hash + top-level arms (borrowed C09.R1/R3)",
            "Round 4: Element.symbol is the member name for an ordinary element and for the placeholder; a memoised Bond.set_mol2_type requires an identity hash; the mol2 arms of "
            "ml.load / loads / load_all / loads_all / dump / dumps return / hand over the class codec's object unchanged."),
    "C08": ("scale guards tabulated over unit factors + narrowing dtype scan + view order (borrowed C05.R5) + top-level arms (borrowed C09.R1/R3)",
            "Round 4: the rejecting guards of scale() are tabulated over every DistanceUnit value and its reciprocal; nothing on the xyz read path narrows below double precision; "
            "Substructure rows keep the order of its atoms; the xyz arms of the top-level entry points return the class codec's object."),
    "C09": ("path / stream arm agreement in the class loaders + override defaults (borrowed C06.R7)",
            "Round 4: the arm of a class-level loader that tells a path from a stream binds the stream only; the copy constructors the cdxml arms use keep the fragment's charge / multiplicity."),
    "C10": ("non-element symbol tokens tabulated (sa/truth.py)", "Round 4: a symbol token that names no element and is no dummy marker reaches Element.get, which raises (tabulated over garbage tokens)."),
    "C11": ("view keeps the caller's order + designator types are AtomLike (sibling agreement)",
            "Round 4: Structure.substructure / Substructure.__init__ keep the caller's atom order (alignment pairs rows by position); every type get_atom / get_atom_index resolve is a member of "
            "the AtomLike union that CartesianGeometry.vector tests before resolving."),
    "C12": ("label order at the call site + copy_atoms forwarding (borrowed C06.R7) + zero charge in the base constructor",
            "Round 4: attachment indices collected label by label are not re-ordered before _ml_assemble; copy_atoms travels up the constructor chain; the base constructor does not replace an "
            "explicit zero charge for a list of atoms."),
    "C13": ("view order clauses (borrowed C05.R5)", "Round 4: substructure((a1, a2)) has a1 in row 0 (the order clauses of the Substructure view)."),
    "C14": ("storage classification of adopted rows + finite-model adoption guard + slice arithmetic + state of the ensemble (borrowed C06.R3)",
            "Round 4: rows taken over from an argument are copies (view / copy classification of the assigned expression); rows sized by the argument alone are adopted only by an ensemble "
            "without atoms (8-world finite model of the guard); ens[slice] resolves rows by slice.indices(n_conformers); the pickled state includes the weights."),
    "C16": ("getter value exactness + same-named delegation of the radius accessors + antiparallel branch (borrowed C11.R6)",
            "Round 4: Atom.valence_electrons returns the table value uncorrected; Atom.cov_radius_* / vdw_radius hand through the element's attribute of the same name; the helper "
            "rotation's antiparallel branch is a rotation for exactly opposite directions."),
    "C17": ("freshness of the bound job + module-state reachability from the driver + *args/**kwargs forwarding + no hard exit reachable from the runner + un-memoised loaders / lossless converters",
            "Round 4: Job.__get__ returns a copy made in that call and parks nothing on the driver; nothing reachable from DriverBase.__init__ / Job.__get__ keeps module-level state; the vectorised "
            "wrappers forward *args and **kwargs; no os._exit is reachable from run_local; JobInput / JobOutput loaders are not memoised and field converters drop no entry."),
    "C18": ("borrowed C17.R1 / R5 clauses", "Round 4: the bound job is fresh per access and the output loader is not memoised (borrowed), so a resumed jobmap judges the current files and settings."),
    "C19": ("script-level option forwarding and key pairing", "Round 4: the gbca / grid workers pass weighted / max_dist / eps to the kernels, zip results with the keys they were looked up for, and do not default eps by truthiness."),
}


def main():
    checks = []
    for pid in IDS:
        if pid not in CLAIMED:
            continue
        tech, text, ref, note = CLAIMED[pid]
        if pid in ROUND4:
            tech = tech + " + " + ROUND4[pid][0]
            text = text + " " + ROUND4[pid][1]
        checks.append(dict(
            property_id=pid,
            quick_cmd=f"/venv/bin/python sa/check.py {pid} --tier quick",
            thorough_cmd=f"/venv/bin/python sa/check.py {pid} --tier thorough",
            evidence_file=f"/verif/evidence/{pid}.json",
            replay_cmd_template=f"/venv/bin/python sa/check.py {pid} --replay {{path}}",
            engine="sa",
            level_claimed=dict(category="other", text=text, design_ref=ref),
            level_note=COMMON_NOTE + " " + note,
            technique="static analysis: " + tech,
        ))
    na = []
    for pid in IDS:
        if pid in CLAIMED:
            continue
        na.append(dict(property_id=pid, reason=NOT_APPLICABLE.get(
            pid, "check under construction (see DESIGN.md); not claimed until its rules are armed")))
    m = dict(
        version=1,
        setup_cmd="true",
        hooks=dict(
            guard="MOLLI_VERIF",
            enable="none needed: the checks read the source; no instrumentation is added to molli",
            baseline_off_cmd="cd /repo && /venv/bin/python -m pytest -ra -q -p no:cacheprovider --timeout=900 --continue-on-collection-errors",
            source_commits=[],
            add_only=True,
        ),
        engines=[dict(name="sa", path="/verif/sa", serves_properties=sorted(CLAIMED),
                      kind_free_text="repository-specific static analyser: ast program model (imports, classes, C3 MRO, "
                                     "attrs fields, constant tables), statement CFG with exceptional edges, provenance "
                                     "slices, call graph with effect summaries; one rule module per property")],
        checks=checks,
        not_applicable=na,
        notes="exit 0 = all obligations discharged (open known findings printed as KNOWN-FINDING); exit 1 = VIOLATION line per "
              "new finding; exit 2 = ANALYSIS-ERROR (anchor vanished / unknown idiom / self-test failure). "
              "known_findings.json is committed and never written at run time.",
    )
    with open(os.path.join(HERE, "MANIFEST.json"), "w") as fh:
        json.dump(m, fh, indent=1)
    print(f"MANIFEST.json: {len(checks)} checks, {len(na)} not claimed")


if __name__ == "__main__":
    main()
