#!/usr/bin/env python3
"""tools_kf.py add <id> <property> <rule> <construct> <status> <commit|-> <what>   (editing aid; never used by checks)"""
import json, sys
p = "/verif/known_findings.json"
d = json.load(open(p))
_, cmd, fid, prop, rule, construct, status, commit, what = sys.argv
d["findings"].append(dict(id=fid, property=prop, rule=rule, construct=construct, status=status,
                          commit=None if commit == "-" else commit,
                          what=(f"fixed: property={prop} {commit} " if status == "fixed" else "") + what))
json.dump(d, open(p, "w"), indent=1)
print("added", fid, rule)
