#!/usr/bin/env python3
"""tools_pairs.py <PREFIX>  (e.g. YC): verify and keep the (breaking change, corrected twin) pairs that sub-agents left under
/tmp/wt_<PREFIX><nn>/_out/m<k>/ :
  verify   patch.diff: applies, demo FAILS, suite unchanged;  fixed.diff: applies, demo PASSES, suite unchanged;  HEAD: demo PASSES
  judge    both diffs in memory with the FROZEN engine (/tmp/verif_frozen, a worktree of /verif made before the wave) -> first verdicts
  keep     seeded/<PREFIX><nn>-m<k>/ (breaking)  and  seeded/refactors/<twin prefix><nn>-m<k>/ (twin), with meta.json
Nothing is ever applied to /repo here."""
import json, os, re, shutil, subprocess, sys, tempfile
from concurrent.futures import ThreadPoolExecutor

PREFIX = sys.argv[1]
TWIN = PREFIX[0] + "F"
ALWAYS = ("test_conformer_to_lib", "test_ensemble_lib", "test_load_all", "test_loads_all")
FROZEN = os.environ.get("SEED_ENGINE", "/tmp/verif_frozen")
SNAP = os.environ.get("TRY_REPO", "/repo")


def sh(cmd, cwd=None, env=None, timeout=1800):
    p = subprocess.run(cmd, shell=True, cwd=cwd, capture_output=True, text=True, timeout=timeout, env={**os.environ, **(env or {})})
    return p.returncode, p.stdout + p.stderr


def suite(wt, scr):
    rc, t = sh("/venv/bin/python -m pytest -q -rf -p no:cacheprovider --timeout=900 --continue-on-collection-errors", wt, {"MOLLI_SCRATCH_DIR": scr})
    last = t.strip().splitlines()[-1] if t.strip() else ""
    bad = [l for l in t.splitlines() if l.startswith("FAILED") and not any(a in l for a in ALWAYS)]
    mm = re.search(r"(\d+) passed", last)
    return last, (not bad and mm is not None and int(mm.group(1)) >= 81)


def verify_wt(i):
    wt = f"/tmp/wt_{PREFIX}{i:02d}"
    out = {}
    if not os.path.isdir(wt):
        return out
    scr = tempfile.mkdtemp(prefix="scr_")
    for m in (1, 2, 3):
        d = f"{wt}/_out/m{m}"
        if not (os.path.isfile(f"{d}/patch.diff") and os.path.isfile(f"{d}/fixed.diff") and os.path.isfile(f"{d}/demo.py")):
            continue
        r = {}
        sh("git checkout -- molli", wt)
        r["demo_head_pass"] = sh(f"/venv/bin/python _out/m{m}/demo.py", wt, {"MOLLI_SCRATCH_DIR": scr})[0] == 0
        for kind in ("patch", "fixed"):
            rc, _ = sh(f"git apply _out/m{m}/{kind}.diff", wt)
            r[f"{kind}_applies"] = rc == 0
            if rc == 0:
                rc2, o2 = sh(f"/venv/bin/python _out/m{m}/demo.py", wt, {"MOLLI_SCRATCH_DIR": scr})
                r[f"{kind}_demo_exit"] = rc2
                last, ok = suite(wt, scr)
                if not ok:  # flaky collection tests: one retry
                    last, ok = suite(wt, scr)
                r[f"{kind}_tests"], r[f"{kind}_tests_unchanged"] = last, ok
            sh("git checkout -- molli", wt)
        r["ok_breaking"] = bool(r.get("patch_applies") and r.get("patch_demo_exit", 0) != 0 and r.get("patch_tests_unchanged") and r["demo_head_pass"])
        r["ok_twin"] = bool(r.get("fixed_applies") and r.get("fixed_demo_exit", 1) == 0 and r.get("fixed_tests_unchanged") and r["demo_head_pass"])
        out[(i, m)] = r
    shutil.rmtree(scr, ignore_errors=True)
    return out


def judge(path):
    rc, out = sh(f"TRY_REPO={SNAP} /venv/bin/python tools_try.py {path}", FROZEN)
    spoke, cur = {}, None
    for l in out.splitlines():
        mm = re.match(r"^(C\d\d) (FAIL|REFUSED)", l)
        if mm:
            cur = mm.group(1)
            spoke[cur] = dict(verdict=mm.group(2), lines=[])
        elif cur and l.startswith("   "):
            spoke[cur]["lines"].append(l.strip()[:260])
    if "Traceback" in out or "does not apply" in out:
        spoke["_tool"] = dict(verdict="REFUSED", lines=[out.strip()[-300:]])
    return spoke


if __name__ == "__main__":
    with ThreadPoolExecutor(max_workers=6) as ex:
        res = {}
        for r in ex.map(verify_wt, range(1, 20)):
            res.update(r)
    frozen_rev = sh("git rev-parse --short HEAD", FROZEN)[1].strip()
    base = sh("git rev-parse --short HEAD", "/repo")[1].strip()
    rows = []
    for (i, m), r in sorted(res.items()):
        src = f"/tmp/wt_{PREFIX}{i:02d}/_out/m{m}"
        note = open(f"{src}/note.md").read() if os.path.exists(f"{src}/note.md") else ""
        jb = judge(f"{src}/patch.diff")
        jt = judge(f"{src}/fixed.diff")
        vb = "caught" if any(v["verdict"] == "FAIL" for v in jb.values()) else ("refused" if jb else "missed")
        vt = "FALSE-ALARM" if any(v["verdict"] == "FAIL" for v in jt.values()) else ("REFUSED" if jt else "silent")
        rows.append((f"{PREFIX}{i:02d}-m{m}", r["ok_breaking"], vb, sorted(jb), r["ok_twin"], vt, sorted(jt)))
        if r["ok_breaking"] and not os.path.exists(f"/verif/seeded/{PREFIX}{i:02d}-m{m}/meta.json"):
            dst = f"/verif/seeded/{PREFIX}{i:02d}-m{m}"
            os.makedirs(dst, exist_ok=True)
            for f in ("patch.diff", "demo.py", "note.md"):
                if os.path.exists(f"{src}/{f}"):
                    shutil.copy(f"{src}/{f}", f"{dst}/{f}")
            cb = {f"{p}/quick": dict(exit=1 if v["verdict"] == "FAIL" else 2, lines=v["lines"][:6], how=f"in memory, frozen engine {frozen_rev}") for p, v in jb.items()}
            json.dump(dict(id=f"{PREFIX}{i:02d}-m{m}", property=f"C{i:02d}", origin="independent sub-agent given only the property text and a scratch worktree (pair: breaking change + corrected twin)",
                           base_commit=base, needs_to_manifest=note.strip().split("\n\n")[0][:600], confirmed=r, twin=f"{TWIN}{i:02d}-m{m}" if r["ok_twin"] else None,
                           caught_by_initial=cb, caught_by=cb), open(f"{dst}/meta.json", "w"), indent=1)
        if r["ok_twin"] and os.path.getsize(f"{src}/fixed.diff") > 0:
            dst = f"/verif/seeded/refactors/{TWIN}{i:02d}-m{m}"
            os.makedirs(dst, exist_ok=True)
            shutil.copy(f"{src}/fixed.diff", f"{dst}/patch.diff")
            shutil.copy(f"{src}/demo.py", f"{dst}/demo.py")
            if os.path.exists(f"{src}/note.md"):
                shutil.copy(f"{src}/note.md", f"{dst}/note.md")
            json.dump(dict(id=f"{TWIN}{i:02d}-m{m}", property=f"C{i:02d}", kind="corrected twin of a seeded breaking change (same sub-agent): the same restructuring with the defect repaired",
                           twin_of=f"{PREFIX}{i:02d}-m{m}", base_commit=base, confirmed=r, first_engine=f"{frozen_rev} (frozen before the wave)", first_verdict=vt,
                           first_alarms={p: dict(verdict="FALSE-ALARM" if v["verdict"] == "FAIL" else "REFUSED", lines=v["lines"][:6]) for p, v in jt.items()}),
                      open(f"{dst}/meta.json", "w"), indent=1)
    for row in rows:
        print("%-9s breaking ok=%-5s %-8s %-16s | twin ok=%-5s %-12s %s" % row)
    from collections import Counter
    print("breaking:", Counter(r[2] for r in rows if r[1]), " twins:", Counter(r[5] for r in rows if r[4]), " unconfirmed:", [r[0] for r in rows if not (r[1] and r[4])])
