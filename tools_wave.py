#!/venv/bin/python
"""
tools_wave.py <TAG-prefix e.g. YC> [nn ...]   confirm and keep the changes of a seeding wave.

For every /tmp/wt_<TAG><nn>/_out/m<k>: tools_seed.verify (patch applies, suite unchanged, demo fails with / passes without);
confirmed ones are copied to /verif/seeded/<TAG><nn>-m<k>/ and judged on disk, in a scratch worktree of /repo (never /repo
itself), by all 19 quick checks of the frozen engine ($SEED_ENGINE, first verdict) and of the current engine.
Editing aid; no registered check uses it.
"""
import json, os, re, shutil, subprocess, sys
from concurrent.futures import ThreadPoolExecutor
import tools_seed as ts

ALL = ["C%02d" % i for i in range(1, 20)]
FROZEN = os.environ.get("SEED_ENGINE", "/tmp/verif_frozen")


def judge(engine, patch, tag):
    wt = f"/tmp/jw_{tag}_{os.getpid()}"
    ev = wt + "_ev"
    ts.sh(f"git -C /repo worktree add --detach {wt} HEAD")
    os.makedirs(ev, exist_ok=True)
    out = {}
    try:
        rc, o = ts.sh(f"git apply {patch}", wt)
        if rc:
            return {"note": "patch does not apply to /repo HEAD"}
        env = dict(os.environ, MOLLI_VERIF_EVIDENCE_DIR=ev)
        for p in ALL:
            pr = subprocess.run(f"/venv/bin/python sa/check.py {p} --tier quick --quiet --repo {wt}", shell=True, cwd=engine,
                                capture_output=True, text=True, env=env)
            if pr.returncode:
                v = [l.strip()[:260] for l in (pr.stdout + pr.stderr).splitlines() if "violated:" in l or l.startswith("ANALYSIS-ERROR")]
                out[f"{p}/quick"] = dict(exit=pr.returncode, lines=v[:6])
    finally:
        ts.sh(f"git -C /repo worktree remove --force {wt}")
        shutil.rmtree(ev, ignore_errors=True)
    return out


def one(job):
    tag, m = job
    src = f"/tmp/wt_{tag}/_out/{m}"
    sid = f"{tag}-{m}"
    if not os.path.exists(f"{src}/patch.diff"):
        return sid, "no patch", None
    v = ts.verify(tag, m)
    ok = v.get("applies") and v.get("demo_clean_pass") and v.get("demo_mutant_fail") and v.get("tests_unchanged")
    if not ok:
        return sid, "NOT CONFIRMED " + json.dumps(v), None
    prop = re.sub(r"^[A-Z](?=C\d\d)", "", tag)
    dst = f"/verif/seeded/{sid}"
    os.makedirs(dst, exist_ok=True)
    for f in ("patch.diff", "demo.py", "note.md"):
        if os.path.exists(f"{src}/{f}"):
            shutil.copy(f"{src}/{f}", f"{dst}/{f}")
    note = open(f"{src}/note.md").read() if os.path.exists(f"{src}/note.md") else ""
    now = judge("/verif", f"{dst}/patch.diff", sid + "n")
    first = now if os.environ.get("WAVE_SINGLE") else judge(FROZEN, f"{dst}/patch.diff", sid + "f")
    meta = dict(
        id=sid, property=prop, origin="independent sub-agent given only the property text and a scratch worktree",
        base_commit=ts.sh("git rev-parse --short HEAD", f"/tmp/wt_{tag}")[1].strip(),
        needs_to_manifest=note.strip().split("\n\n")[0][:600],
        confirmed=v,
        what_i_ran=[
            f"cd /tmp/wt_{tag} && git apply _out/{m}/patch.diff && /venv/bin/python -m pytest -q ... (baseline unchanged) && /venv/bin/python _out/{m}/demo.py (fails); git checkout -- molli; demo.py (passes)",
            "scratch worktree of /repo + patch; /venv/bin/python sa/check.py <each of the 19 properties> --tier quick --repo <worktree>; worktree removed",
        ],
        frozen_engine=ts.sh("git rev-parse --short HEAD", "/verif" if os.environ.get("WAVE_SINGLE") else FROZEN)[1].strip(),
        caught_by_initial=first,
        caught_by=now,
    )
    json.dump(meta, open(f"{dst}/meta.json", "w"), indent=1)

    def verdict(c):
        own = c.get(f"{prop}/quick")
        return "CAUGHT" if own and own["exit"] == 1 else ("REFUSED" if own and own["exit"] == 2 else "MISSED")
    others = {k: v_["exit"] for k, v_ in now.items() if not k.startswith(prop)}
    return sid, f"first={verdict(first)} now={verdict(now)}" + (f" others={others}" if others else ""), meta


if __name__ == "__main__":
    pre = sys.argv[1]
    nums = sys.argv[2:] or ["%02d" % i for i in range(1, 20)]
    jobs = [(f"{pre}{n}", f"m{k}") for n in nums for k in (1, 2, 3, 4, 5, 6)]
    jobs = [j for j in jobs if os.path.exists(f"/tmp/wt_{j[0]}/_out/{j[1]}/patch.diff")]
    # verify() works in the agent's worktree: one change of a worktree at a time -> parallel over worktrees only
    by_wt = {}
    for j in jobs:
        by_wt.setdefault(j[0], []).append(j)

    def run_wt(js):
        return [one(j) for j in js]
    with ThreadPoolExecutor(max_workers=int(os.environ.get('WAVE_JOBS', '5'))) as ex:
        for rows in ex.map(run_wt, by_wt.values()):
            for sid, v, _ in rows:
                print("%-10s %s" % (sid, v), flush=True)
