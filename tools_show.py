#!/usr/bin/env python3
"""tools_show.py <file> <func>[,<func>...]  - print functions without docstrings (reading aid)"""
import ast, sys
path, names = sys.argv[1], set(sys.argv[2].split(","))
t = ast.parse(open(path).read())
for n in ast.walk(t):
    if isinstance(n, (ast.FunctionDef, ast.ClassDef)) and n.name in names:
        for f in ast.walk(n):
            if isinstance(f, (ast.FunctionDef, ast.ClassDef)) and f.body and isinstance(f.body[0], ast.Expr) and isinstance(f.body[0].value, ast.Constant) and isinstance(f.body[0].value.value, str):
                f.body = f.body[1:] or [ast.Pass()]
        print(f"# {path}:{n.lineno}")
        print(ast.unparse(n))
        print()
