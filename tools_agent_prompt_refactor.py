#!/usr/bin/env python3
"""prompt for an independent sub-agent that produces behaviour-PRESERVING refactorings of the code a property is anchored in
(used to probe the checks for false alarms; nothing from /verif's checks is included)"""
import json, sys
pid = sys.argv[1]
n = int(sys.argv[2]) if len(sys.argv) > 2 else 4
tag = sys.argv[3] if len(sys.argv) > 3 else pid
bold = len(sys.argv) > 4 and sys.argv[4] == "bold"
BOLD = """
  (b2) be BOLDER than cosmetic: prefer structural refactorings - split a long function into two or three private helpers (also helpers that return several values, generator helpers,
      helpers with an early return inside a loop), merge duplicated branches, replace a flag by early exits or vice versa, group values into a small private NamedTuple / dataclass,
      turn a match into a dispatch dict or a dict into a match, turn loops into comprehensions / generators / itertools or back, hoist a common tail out of branches, change a local data
      representation (list <-> dict <-> set, index loop <-> zip / enumerate) with identical results, move a block of code from one method into a sibling or the base class when every caller
      still sees the same behaviour.""" if bold else ""
prop = [json.loads(l) for l in open("/verif/properties.jsonl") if json.loads(l)["id"] == pid][0]
wt = f"/tmp/wt_{tag}"
print(f"""You work ONLY inside the scratch git worktree {wt} (a checkout of the Python library SEDenmarkLab/molli). Do not read or write anything
under /repo or /verif, and do not look for other people's analysis anywhere on this machine. There is no network.

Background: the following semantic property of molli holds on this tree and is guarded by reviewers who read the code it is anchored in:

  id: {prop['id']}
  title: {prop['title']}
  statement: {prop['statement']}
  code it is anchored in: {', '.join(prop['anchors']['files'])}
  mechanisms: {'; '.join(m.get('name','') + ' @ ' + str(m.get('where','')) for m in prop['anchors'].get('mechanism', []))}

Your task: produce {n} DISTINCT, independent, BEHAVIOUR-PRESERVING refactorings of that anchored code (each one a separate patch against the worktree's HEAD). Each refactoring must
  (a) leave the observable behaviour of molli exactly as it is - in particular the property above must still hold, for every input, exactly as before;
  (b) be the kind of clean-up a maintainer would really do and merge: rename locals or parameters of private helpers, extract or inline a small helper, replace an idiom by an
      equivalent one (if/elif <-> match, loop <-> comprehension, `a or b` <-> explicit `is None` test where equivalent, `pop()/appendleft()` <-> `popleft()/append()`, tuple built through a
      local, early return <-> nested if, f-string <-> format, try/finally <-> with/ExitStack, etc.), reorder independent statements, split a long function, move a constant into a table;{BOLD}
  (c) touch the core of the mechanism listed above (not only comments, docstrings or whitespace), be non-trivial (at least ~8 changed lines), and differ from the other {n-1} in kind and location;
  (d) keep the existing test suite exactly as before:  cd {wt} && /venv/bin/python -m pytest -q -p no:cacheprovider --timeout=900 --continue-on-collection-errors
      (expected: 81 passed, 4 failed [test_conformer_to_lib, test_ensemble_lib, test_load_all, test_loads_all fail for unrelated reasons], 19 skipped; other people run the same suite concurrently and
      it shares a scratch directory, so re-run once or twice before concluding that you broke a test in molli_test/test_collections.py).
For each refactoring i = 1..{n} deliver, under {wt}/_out/r<i>/ :
  - patch.diff  : `git diff` of ONLY that refactoring against HEAD (source files under molli/ only)
  - equiv.py    : a standalone regression program (run as `cd {wt} && /venv/bin/python _out/r<i>/equiv.py`; it must begin with `import sys, os; sys.path.insert(0, os.getcwd())` and assert that
                  molli.__file__ lies under the current directory) that exercises the refactored functions on a handful of varied inputs (including the awkward ones the property quantifies over)
                  and prints a deterministic digest of the results; it must print the SAME digest and exit 0 with and without the patch
  - note.md     : 5-10 lines: what was refactored, the argument why behaviour is unchanged, and the commands you ran with their outcomes (suite with the patch; digest without and with the patch)
Work one refactoring at a time: edit, run the suite, run equiv.py, save `git diff > _out/r<i>/patch.diff`, `git checkout -- molli`, run equiv.py again on the clean tree and compare the digest.
Leave the worktree clean (only the untracked _out/ directory) when you finish. Use /venv/bin/python (3.12).
Your final answer: for each refactoring one line saying what it does and whether suite and digest were unchanged.""")
